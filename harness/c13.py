"""C13 — Consumption starts at the committed offset, else per auto_offset_reset.

(1) proofs over model/C13_StartPos.v (public statements props/C13.v);
(2) correspondence: the REAL AIOKafkaConsumer — group (group_id + subscribe), group + assign,
    group-less assign — under the deterministic simulator: committed offsets absent / inside /
    below log start / beyond log end, three policies, both isolation levels (open transaction:
    LSO < HW), brokers advertising ListOffsets v0..v3, lookups failing with retriable errors /
    dropped / timing out (ListOffsets, OffsetFetch, FindCoordinator), retention moving the log
    start, and a user seek() / seek_to_beginning() / seek_to_end() landing at EVERY scheduling
    point between assignment and completion (enumerated: one base run counts the
    start-position events, then one run per insertion index).  Per partition the recorded
    boundary trace must be ACCEPTED by the model (evaluated inside Coq by vm_compute) with equal
    final position / first position and its origin / errors surfaced;
(3) independent monitors: first position / first record delivered / exceptions raised vs the
    simulated log start, end, LSO and offset store.
"""
import copy
import glob
import json
import os
import random

import c03
from common import NPROC, VERIF, Check, coq_bool, coq_list, coq_opt, coq_Z, parse_coq_value, parse_eval_outputs, run_impl

OF_SIG = ("OffsetFetch v2+ reply with a group-level error in the top-level error_code (no partitions) is read as "
          "'no committed offset'")
SEEKTO_SIG = ("seek_to_beginning/seek_to_end issued while a ListOffsets for another strategy is in flight completes "
              "with that other strategy's offset")


def data(n, **kw):
    return dict({"k": "data", "n": n, "kept": list(range(n)), "pid": -1, "txn": False, "gzip": False}, **kw)


# ------------------------------------------------------------------------------------ scenarios
def gen_base(rng, sid, **over):
    iso = rng.choice([0, 1])
    logs = {}
    nparts = rng.choice([1, 1, 2])
    for p in range(nparts):
        ops = [data(rng.choice([2, 3, 4])) for _ in range(rng.randrange(2, 6))]
        if iso == 1 and rng.random() < 0.6:
            # an open transaction at the tail: last stable offset < high watermark
            ops.append(data(2, pid=5, txn=True))
            ops.append(data(1))
        if rng.random() < 0.3:
            ops.insert(1, data(2, pid=7, txn=True))
            ops.insert(2, {"k": "marker", "pid": 7, "commit": rng.random() < 0.5})
        logs[str(p)] = ops
    lens = {p: c03.log_len(logs[str(p)]) for p in range(nparts)}
    log_start = {}
    committed = {}
    for p in range(nparts):
        ls = rng.choice([0, 0, rng.randrange(1, max(2, lens[p] - 1))])
        if ls:
            log_start[str(p)] = ls
        kind = rng.choice(["absent", "absent", "inside", "inside", "below", "beyond", "at_start", "at_end"])
        if kind == "inside":
            committed[str(p)] = rng.randrange(ls, lens[p] + 1)
        elif kind == "below" and ls > 0:
            committed[str(p)] = rng.randrange(0, ls)
        elif kind == "beyond":
            committed[str(p)] = lens[p] + rng.randrange(1, 10)
        elif kind == "at_start":
            committed[str(p)] = ls
        elif kind == "at_end":
            committed[str(p)] = lens[p]
    lo_max = rng.choice([3, 3, 2, 1, 0]) if iso == 0 else rng.choice([3, 3, 2])
    nf = rng.choice([0, 0, 1, 2, 3])
    faults = {}
    for _ in range(nf):
        o = rng.randrange(1, 14)
        kind = rng.choice(["drop_before", "drop_after", "no_reply", "error", "error", "delay"])
        f = {"kind": kind}
        if kind == "error":
            f["code"] = rng.choice([6, 3, 5, 7, 14, 15, 16])
        if kind == "delay":
            f["delay"] = rng.choice([0.05, 0.3])
        faults[str(o)] = f
    sc = {"id": sid, "seed": rng.randrange(1 << 30), "brokers": rng.choice([1, 2, 3]), "partitions": nparts, "iso": iso,
          "policy": rng.choice(["earliest", "latest", "none"]),
          "mode": rng.choice(["group", "group", "group_assign", "assign"]),
          "logs": logs, "log_start": log_start, "committed": committed,
          "api_ranges": {"2": [0, lo_max], "9": [0, rng.choice([3, 3, 2, 1])]}, "faults": faults,
          "latency": rng.choice([[0.001, 0.004], [0.001, 0.03]]), "migrations": [], "log_start_moves": [],
          "request_timeout_ms": 1500, "retry_backoff_ms": rng.choice([20, 50]),
          "inject": None, "consume": 2, "drain": 30.0}
    if sc["mode"] != "assign" and rng.random() < 0.25:
        sc["coord_loading"] = [{"at": rng.choice([0, 0, 0.02]), "for": rng.choice([0.03, 0.1, 0.3])}]
    if sc["mode"] == "group_assign" and sc["brokers"] > 1 and rng.random() < 0.15:
        sc["coord_moves"] = [{"at": rng.choice([0.005, 0.02]), "to": rng.randrange(sc["brokers"]), "keep_state": True}]
    if sc["brokers"] > 1 and rng.random() < 0.2:
        sc["migrations"].append({"at": rng.choice([0.01, 0.03, 0.1]), "partition": rng.randrange(nparts),
                                 "to": rng.randrange(sc["brokers"])})
    sc.update(over)
    return sc


def directed_bases(base_id):
    """the grid the property's quantifier names: committed x policy x isolation x mode x version"""
    out = []
    k = base_id
    log = [data(3), data(3), data(2, pid=5, txn=True), data(2)]        # 10 offsets, LSO 6 < HW 10
    for mode in ("group", "group_assign", "assign"):
        for policy in ("earliest", "latest", "none"):
            for committed in (None, 4, 1, 25):
                for iso in (0, 1):
                    out.append({"id": k, "seed": k, "brokers": 2, "partitions": 1, "iso": iso, "policy": policy,
                                "mode": mode, "logs": {"0": copy.deepcopy(log)}, "log_start": {"0": 2},
                                "committed": {} if committed is None else {"0": committed},
                                "api_ranges": {"2": [0, 3 if iso else (k % 4)]}, "faults": {}, "inject": None,
                                "consume": 2, "drain": 20.0})
                    k += 1
    return out


def finding_scenarios(base_id):
    """regression schedules of the two defects this check found (both fixed in /repo since): a coordinator that
    is loading while the group has a committed offset; seek_to_end / seek_to_beginning landing while a ListOffsets
    for the other strategy is in flight"""
    log = [data(3), data(3), data(3), data(3)]
    a = {"id": base_id, "seed": 1, "brokers": 2, "partitions": 1, "iso": 0, "policy": "latest", "mode": "group_assign",
         "logs": {"0": copy.deepcopy(log)}, "log_start": {"0": 2}, "committed": {"0": 4}, "faults": {},
         "coord_loading": [{"at": 0, "for": 0.2}], "inject": None, "consume": 1, "drain": 20.0}
    b = {"id": base_id + 1, "seed": 2, "brokers": 1, "partitions": 1, "iso": 0, "policy": "earliest", "mode": "group",
         "logs": {"0": copy.deepcopy(log)}, "log_start": {"0": 2}, "committed": {}, "faults": {},
         "inject": {"after_kind": "c_lo_sent", "p": 0, "kind": "seek_end", "to": 0}, "consume": 1, "drain": 20.0}
    c = copy.deepcopy(b)
    c.update({"id": base_id + 2, "policy": "latest", "mode": "assign",
              "inject": {"after_kind": "c_lo_sent", "p": 0, "kind": "seek_beg", "to": 0}})
    return [a, b, c]


def check_second_assignment(ck):
    """a second assignment during the consumer's life (assign() called again, unsubscribe() + subscribe(), a subscribed
    topic growing) gets its start positions like the first: within seconds every assigned partition has a position, the
    log start under 'earliest', the log end under 'latest' (under 'none' there is nothing to establish: position() waits).
    Monitors only: the Coq model of C13 describes one assignment."""
    cases = []
    k = 0
    for how in ("assign_twice", "grow", "resubscribe"):
        for group in (False, True):
            for policy in ("earliest", "latest", "none"):
                for lo in (None, 0, 1):
                    if how == "assign_twice" and group:
                        continue
                    c = {"seed": 1300 + k, "how": how, "group": group, "policy": policy, "partitions": 2, "preload": 4,
                         "same": k % 2 == 0}
                    if lo is not None:
                        c["api_ranges"] = {"2": [0, lo]}
                    cases.append(c)
                    k += 1
    out = run_impl("c13_reassign_impl.py", {"cases": cases}, timeout=900, env={"AIOKAFKA_NO_EXTENSIONS": "1"})["out"]
    bad = 0
    for c, r in zip(cases, out):
        ck.count(key=("second-assignment", json.dumps(c, sort_keys=True)), nontrivial=True)
        what = None
        if "error" in r:
            what = f"the run failed: {r['error']}"
        else:
            for phase in ("first", "second"):
                for p, pos in r[phase].items():
                    end = r["ends"][p]
                    want = {"earliest": 0, "latest": end}.get(c["policy"])
                    if c["policy"] == "none":
                        # nothing to reset to: position() keeps waiting (the error goes to getone()/getmany())
                        ok = pos in ("TIMEOUT", "EXC:NoOffsetForPartitionError")
                    else:
                        ok = pos == want
                    if not ok and what is None:
                        what = (f"{phase} assignment ({c['how']}, {'group' if c['group'] else 'no group'}, policy "
                                f"{c['policy']}): position of partition {p} is {pos}, expected "
                                f"{'NoOffsetForPartitionError' if c['policy'] == 'none' else want}")
        if what:
            bad += 1
            if bad <= 5:
                ck.violation(what, {"kind": "second-assignment", "case": c, "observed": r},
                             signature=f"second-assignment:{c['how']}:{c['policy']}:{int(c['group'])}")
    ck.extra["second_assignment_cases"] = len(cases)
    ck.log(f"second assignment: {len(cases)} cases, {bad} without proper start positions")


def seek_to_committed_scenarios(base_id):
    """seek_to_committed() is an explicit seek: right afterwards the position is the committed offset it returned - for
    every committed offset inside the log, 0 included - and the next record comes from there"""
    out = []
    log = [data(3), data(3), data(3)]
    k = base_id
    for committed in (0, 1, 4, 8):
        for mode in ("group", "group_assign"):
            for policy in ("earliest", "latest", "none"):
                out.append({"id": k, "seed": k, "brokers": 1, "partitions": 1, "iso": 0, "policy": policy, "mode": mode,
                            "logs": {"0": copy.deepcopy(log)}, "log_start": {"0": 0}, "committed": {"0": committed},
                            "faults": {}, "consume": 3,
                            # the application reads three records, then goes back to what the group has committed
                            "inject": {"after_kind": "c_committed_resp", "p": 0, "kind": "seek_committed", "to": committed,
                                       "delay": 0.3},
                            "drain": 20.0, "family": "seek-to-committed"})
                k += 1
    return out


def oor_inflight_scenarios(base_id):
    """a user seek landing while a Fetch at an out-of-range position is in flight: the OFFSET_OUT_OF_RANGE reply
    that arrives afterwards concerns an abandoned offset and must not reset or fail the sought position"""
    out = []
    k = base_id
    log = [data(3), data(3), data(3), data(3)]
    for policy in ("earliest", "latest", "none"):
        for committed in (1, 25):
            for kind, to in (("seek", 6), ("seek", 2), ("seek_beg", 0), ("seek_end", 0)):
                for mode in ("group_assign", "group"):
                    out.append({"id": k, "seed": k, "brokers": 1, "partitions": 1, "iso": 0, "policy": policy,
                                "mode": mode, "logs": {"0": copy.deepcopy(log)}, "log_start": {"0": 2},
                                "committed": {"0": committed}, "faults": {}, "latency": [0.002, 0.02],
                                "inject": {"after_kind": "c_fetch_sent_oor", "p": 0, "kind": kind, "to": to},
                                "consume": 2, "drain": 20.0})
                    k += 1
    return out


def late_comer_scenarios(base_id):
    """a partition whose leader becomes known late asks for its committed offset while the OffsetFetch for the
    other partition is still in flight: it must be answered from the group's offset store by a request that
    names it, not with 'no committed offset'"""
    out = []
    k = base_id
    log = [data(3), data(3), data(3), data(3)]
    for policy in ("earliest", "latest", "none"):
        for mode in ("group", "group_assign"):
            for gap in (0.02, 0.06, 0.15):
                for slow in (0.1, 0.3):
                    out.append({"id": k, "seed": k, "brokers": 2, "partitions": 2, "iso": 0, "policy": policy,
                                "mode": mode, "logs": {"0": copy.deepcopy(log), "1": copy.deepcopy(log)},
                                "log_start": {}, "committed": {"0": 4, "1": 7}, "faults": {},
                                "latency": [0.001, 0.003], "api_latency": {"OffsetFetch": slow},
                                "leaderless": [{"at": 0, "partition": 1, "for": gap}],
                                "metadata_max_age_ms": 50, "inject": None, "consume": 2, "drain": 20.0})
                    k += 1
    return out


def blocked_caller_scenarios(base_id):
    """policy none, partition 1 has no committed offset (NoOffsetForPartitionError) while partition 0 - same
    leader - awaits an explicit seek_to_* whose ListOffsets fails once; the application is parked in getone()"""
    out = []
    k = base_id
    log = [data(3), data(3)]
    for mode in ("group", "group_assign"):
        for kind in ("seek_end", "seek_beg"):
            for fault in ({"kind": "no_reply"}, {"kind": "drop_before"}, {"kind": "error", "code": 6}, {"kind": "error", "code": 7}):
                for o in (1, 2):
                    out.append({"id": k, "seed": k, "brokers": 1, "partitions": 2, "iso": 0, "policy": "none",
                                "mode": mode, "logs": {"0": copy.deepcopy(log), "1": copy.deepcopy(log)},
                                "log_start": {}, "committed": {"0": 2}, "faults": {},
                                "api_faults": {"ListOffsets": [None] * (o - 1) + [fault]},
                                "latency": [0.001, 0.003], "request_timeout_ms": 1000, "app": "getone_blocking",
                                "inject": {"after_kind": "c_committed_req", "p": 0, "kind": kind, "to": 0},
                                "consume": 1, "drain": 20.0})
                    k += 1
    return out


def with_injections(base, n_events, kinds, next_id):
    out = []
    for p_str, n in n_events.items():
        p = int(p_str)
        ln = c03.log_len(base["logs"][p_str])
        ks = list(range(1, n + 1))
        if n > 40:      # long retry loops: the first 30 indices and a spread over the rest
            ks = ks[:30] + ks[30::max(1, (n - 30) // 10)][:10]
        for k in ks:
            for kind in kinds:
                sc = copy.deepcopy(base)
                sc["id"] = next_id[0]
                next_id[0] += 1
                sc["base"] = base["id"]
                to = [1, ln // 2, ln][k % 3]
                sc["inject"] = {"at": k, "p": p, "kind": kind, "to": to}
                out.append(sc)
    return out


# ------------------------------------------------------------------------------------ projection
STRAT = {-2: "Earliest", -1: "Latest"}


def project(sc, r, p):
    tr = []
    problems = []
    env = None
    of_err = None
    for e in r["trace"]:
        k = e["ev"]
        if k == "env_offset_fetch_error":
            of_err = e
            continue
        if k == "env_list_offsets" and e["p"] == p:
            f = e.get("fault")
            if f is None or f["kind"] in ("delay",):
                if e["leader"] == e["node"]:
                    env = e
            continue
        if k.startswith("c_") and e.get("p") != p:
            continue
        if k == "c_assigned":
            tr.append(("Assigned",))
            env = None
        elif k == "c_committed_req":
            tr.append(("CommittedReq",))
        elif k == "c_lookup_sent":
            tr.append(("LookupSent",))
            of_err = None
        elif k == "c_lookup_err":
            tr.append(("LookupErr",))
        elif k == "c_lookup_ok":
            tr.append(("LookupOk", e["c"]))
            of_err = None
        elif k == "c_committed_resp":
            tr.append(("CommittedResp", e["c"]))
        elif k == "c_lo_sent":
            tr.append(("ListOffsetsSent", STRAT[e["strategy"]]))
        elif k == "c_lo_err":
            tr.append(("ListOffsetsErr", STRAT[e["strategy"]]))
        elif k == "c_lo_resp":
            applied = False
            for x in r["trace"][r["trace"].index(e) + 1:]:
                if x["ev"] == "c_reset_to" and x.get("p") == p:
                    applied = True
                    break
                if x["ev"].startswith(("c_", "a_")) and x["ev"] not in ("c_lo_resp", "c_reset_to"):
                    break
            if not applied:
                tr.append(("ListOffsetsIgnored", STRAT[e["strategy"]]))
            elif env is None:
                problems.append("ListOffsets reply without a handled request")
                tr.append(("ListOffsetsResp", STRAT[e["strategy"]], -1, -1, -1))
            else:
                tr.append(("ListOffsetsResp", STRAT[e["strategy"]], env["log_start"], env["hw"], env["lso"]))
        elif k == "c_fetch_resp" and e["code"] == 1:
            tr.append(("OutOfRange", e["o"]))
        elif k in ("c_hand_one", "c_hand_many") and e.get("pos") is not None:
            tr.append(("Consumed", e["pos"]))
        elif k == "c_seek":
            tr.append(("Seek", e["o"]))
        elif k == "c_seek_reset":
            tr.append(("SeekTo", STRAT[e["strategy"]]))
        elif k == "c_raise":
            tr.append(("ErrRaised", "NoOffset" if e["exc"] == "NoOffsetForPartitionError" else "OutOfRangeErr"))
        elif k in ("a_position", "a_final") and e["p"] == p and e["pos"] is not None:
            tr.append(("Position", e["pos"]))
    # the harness' own bookkeeping of what was observed: positions established, in order
    established = []
    for e in r["trace"]:
        if e.get("p") != p:
            continue
        if e["ev"] == "c_assigned":
            established = []
        elif e["ev"] == "c_reset_to":
            established.append(("reset", e["o"]))
        elif e["ev"] == "c_seek":
            established.append(("seek", e["o"]))
    surfaced = [(1 if e["exc"] == "NoOffsetForPartitionError" else 2) for e in r["trace"]
                if e["ev"] == "c_raise" and e.get("p") == p]
    # errors surfaced before the last assignment do not count for the model (fresh state keeps none)
    return tr, established, surfaced, problems


def coq_ev(e):
    k = e[0]
    if k in ("LookupOk", "CommittedResp"):
        return f"{k} {coq_opt(e[1], coq_Z)}"
    if k in ("ListOffsetsSent", "ListOffsetsErr", "ListOffsetsIgnored", "SeekTo", "ErrRaised"):
        return f"{k} {e[1]}"
    if k == "ListOffsetsResp":
        return f"ListOffsetsResp {e[1]} {coq_Z(e[2])} {coq_Z(e[3])} {coq_Z(e[4])}"
    if len(e) == 1:
        return k
    return f"{k} {coq_Z(e[1])}"


def coq_cfg(sc, p):
    pol = {"earliest": "PEarliest", "latest": "PLatest", "none": "PNone"}[sc["policy"]]
    group = sc["mode"] in ("group", "group_assign")
    cm = (sc.get("committed") or {}).get(str(p))
    return f"(mkCfg {pol} {'RC' if sc['iso'] else 'RU'} {coq_bool(group)} {coq_opt(cm, coq_Z)})"


# ------------------------------------------------------------------------------------ monitor
def monitor(ck, sc, r):
    """The property itself against the simulated log start / end / LSO and the offset store."""
    bad = 0

    def viol(what, p, extra=None, sig=None):
        nonlocal bad
        bad += 1
        rp = {"scenario": sc, "partition": p, "what": what}
        if extra:
            rp.update(extra)
        ck.violation(f"{what} (scenario {sc['id']}, partition {p})", rp, signature=sig or f"sim:{what[:70]}")

    group = sc["mode"] in ("group", "group_assign")
    inj = sc.get("inject")
    # "raises NoOffsetForPartition / OffsetOutOfRange to the caller": a caller parked in getone() is woken by the
    # buffered error - it is not left waiting for some record to arrive
    tb = [e["t"] for e in r["trace"] if e["ev"] == "a_block_timeout"]
    if tb:
        begin = max([e["t"] for e in r["trace"] if e["ev"] == "a_block_begin" and e["t"] <= tb[0]] or [0])
        errs = [e for e in r["trace"] if e["ev"] == "c_set_error" and begin <= e["t"] < tb[0] - 1.0]
        if errs:
            viol(f"{errs[0].get('exc', 'an error')} was buffered for partition {errs[0].get('p')} but the caller parked in "
                 f"getone() was not woken for {tb[0] - errs[0]['t']:.1f} s", errs[0].get("p"),
                 {"error_event": errs[0]}, sig="sim:buffered-error-does-not-wake-getone")
    for e in r["trace"]:
        if e["ev"] == "a_seek_committed" and e.get("committed") is not None and e.get("position") != e["committed"]:
            viol(f"seek_to_committed() returned offset {e['committed']} but the position right afterwards is "
                 f"{e.get('position')}: the explicit seek did not take effect", e.get("p"), {"event": e},
                 sig="sim:seek-to-committed-ignored")
    if r.get("fetch_task_done"):
        viol("the background fetch routine terminated", None, sig="sim:fetch-routine-died")
    for p in range(sc["partitions"]):
        truth = r["truth"][str(p)]
        visible = [o for b in truth["batches"] for o in b[2]]
        cm = (sc.get("committed") or {}).get(str(p)) if group else None
        evs = [e for e in r["trace"] if e.get("p") == p or e["ev"] in ("a_getmany", "a_exc", "env_offset_fetch_error")]
        # restrict to the last assignment
        last_asg = max([i for i, e in enumerate(evs) if e["ev"] == "c_assigned"] or [0])
        evs = evs[last_asg:]
        user_at = None
        for i, e in enumerate(evs):
            if e["ev"] in ("c_seek", "c_seek_reset"):
                user_at = i
                break
        env = None                  # leader's state when it last answered a ListOffsets
        expected_ptr = None         # next record the application is entitled to
        pending_user = None         # ("seek", o) / ("seekto", strategy) not yet overridden
        n_established = 0
        after_oor = False
        oor_pending = None          # an offset the broker reported out of range, not yet acted upon
        of_err = False              # the OffsetFetch in flight was answered with a top-level-only error
        swallowed = False           # ... and the client resolved the lookup with "no committed offset"
        for i, e in enumerate(evs):
            k = e["ev"]
            if k == "env_offset_fetch_error":
                of_err = bool(e["top_level_only"])
            elif k == "c_lookup_sent":
                of_err = False
            elif k == "c_lookup_ok":
                if of_err and e["c"] is None:
                    swallowed = True
                of_err = False
            if k == "env_list_offsets":
                f = e.get("fault")
                if (f is None or f["kind"] == "delay") and e["leader"] == e["node"]:
                    env = e
            elif k == "c_seek":
                pending_user = ("seek", e["o"])
                expected_ptr = e["o"]
                after_oor = False
                oor_pending = None
            elif k == "c_seek_reset":
                pending_user = ("seekto", e["strategy"], i)
                expected_ptr = None
            elif k == "c_fetch_resp" and e["code"] == 1:
                if expected_ptr is not None and e["o"] == expected_ptr:
                    after_oor = True      # the broker says this position is out of range
                    oor_pending = e["o"]
                    pending_user = None
                    if sc["policy"] != "none":
                        expected_ptr = None
            elif k == "c_reset_to":
                n_established += 1
                o = e["o"]
                # which rule applies to this reset?
                lo_resp = None
                for x in reversed(evs[:i]):
                    if x["ev"] == "c_lo_resp":
                        lo_resp = x
                        break
                    if x["ev"] in ("c_committed_resp", "c_reset_to", "c_seek"):
                        break
                if pending_user and pending_user[0] == "seek":
                    viol(f"position reset to {o} although the application had sought to {pending_user[1]} "
                         f"and nothing reported that offset out of range", p, {"event": e})
                elif lo_resp is None:
                    # from the committed lookup
                    if cm is None:
                        viol(f"position set to {o} from a committed lookup but the group has no committed offset "
                             f"(or the consumer has no group)", p, {"event": e})
                    elif o != cm:
                        viol(f"position set to {o}, the committed offset is {cm}", p, {"event": e})
                    if pending_user:
                        viol(f"seek_to_* was requested but the position was set from the committed offset {o}", p, {"event": e})
                else:
                    want_strategy = None
                    if pending_user and pending_user[0] == "seekto":
                        want_strategy = pending_user[1]
                    elif sc["policy"] != "none":
                        want_strategy = {"earliest": -2, "latest": -1}[sc["policy"]]
                    if want_strategy is None:
                        viol(f"position reset to {o} by a ListOffsets lookup although the policy is none", p, {"event": e})
                    elif lo_resp["strategy"] != want_strategy:
                        if pending_user and pending_user[0] == "seekto":
                            viol(f"{'seek_to_end' if want_strategy == -1 else 'seek_to_beginning'}() completed with offset {o} "
                                 f"found for the other strategy ({lo_resp['strategy']}) by a lookup started before the call",
                                 p, {"event": e}, sig=SEEKTO_SIG)
                        else:
                            viol(f"position reset with strategy {lo_resp['strategy']} although the policy is {sc['policy']}",
                                 p, {"event": e})
                    elif env is None:
                        viol("position reset without any ListOffsets answered by the leader", p, {"event": e})
                    else:
                        if want_strategy == -2:
                            want = env["log_start"]
                        else:
                            # a broker that is not told the isolation level (ListOffsets v0/v1) answers the high watermark
                            want = env["lso"] if (sc["iso"] and env["version"] >= 2) else env["hw"]
                        if o != want:
                            viol(f"position reset to {o}; the leader's "
                                 f"{'log start' if want_strategy == -2 else ('last stable offset' if sc['iso'] else 'high watermark')} "
                                 f"was {want}", p, {"event": e, "env": env})
                    if not pending_user and not after_oor and cm is not None:
                        viol(f"position reset by policy to {o} although the group has the committed offset {cm} "
                             f"and nothing was reported out of range"
                             + (" (the coordinator had answered OffsetFetch with a group-level error)" if swallowed else ""),
                             p, {"event": e}, sig=OF_SIG if swallowed else None)
                expected_ptr = o
                pending_user = None
                after_oor = False
                oor_pending = None
            elif k == "a_getmany":
                for m in e["recs"].get(str(p), []):
                    if expected_ptr is None:
                        viol(f"record {m['o']} delivered while no position was established", p, {"event": e})
                    else:
                        nxt = [v for v in visible if v >= expected_ptr]
                        if not nxt or nxt[0] != m["o"]:
                            viol(f"record {m['o']} delivered; the first visible record at or after the start position "
                                 f"{expected_ptr} is {nxt[0] if nxt else None}", p, {"event": e})
                    expected_ptr = m["o"] + 1
            elif k == "c_raise":
                if e["exc"] == "NoOffsetForPartitionError":
                    if sc["policy"] != "none" or cm is not None:
                        viol("NoOffsetForPartitionError raised although a committed offset / a reset policy exists", p,
                             {"event": e}, sig=OF_SIG if (swallowed and sc["policy"] == "none") else None)
                elif e["exc"] == "OffsetOutOfRangeError":
                    if sc["policy"] != "none":
                        viol(f"OffsetOutOfRangeError raised although the policy is {sc['policy']}", p, {"event": e})
        fin = r["final"][str(p)]
        if oor_pending is not None and sc["policy"] != "none" and fin["pos"] == oor_pending:
            viol(f"the leader reported position {oor_pending} out of range but the consumer never moved to the "
                 f"{sc['policy']} offset", p, {"final": fin}, sig="sim:out-of-range-not-reset")
        # completion: faults are finite, so in the end there is a position or (policy none) an error was raised
        if fin["pos"] is None:
            ok_none = sc["policy"] == "none" and any(e["ev"] == "c_raise" for e in evs)
            if not ok_none:
                viol("no valid position at the end of the run", p, {"final": fin}, sig="sim:no-position-at-end")
        if sc["policy"] == "none" and cm is None and user_at is None and not any(
                e["ev"] == "c_raise" and e["exc"] == "NoOffsetForPartitionError" for e in evs):
            viol("policy none and no committed offset, but NoOffsetForPartitionError was never raised", p)
    return bad


# ------------------------------------------------------------------------------------ main
def replay_body(cases):
    return "Eval vm_compute in [" + ";\n ".join(f"replay {c['cfg']} {coq_list(c['tr'], coq_ev)}" for c in cases) + "].\n"


def opt_val(x):
    return x[1] if isinstance(x, tuple) and x and x[0] == "Some" else None


def check_models(ck, cases, prefix="c13"):
    for fn in glob.glob(os.path.join(VERIF, "coq", "run", prefix + "_traces_*")):
        try:
            os.remove(fn)
        except OSError:
            pass
    per = max(60, (len(cases) + 9) // 10)
    bodies = [replay_body(cases[i:i + per]) for i in range(0, len(cases), per)]
    res = ck.coq_eval_sharded(prefix + "_traces", ["C13_StartPos"], bodies)
    rejected = mismatched = coq_fail = accepted = 0
    for ci, (okc, out) in enumerate(res):
        chunk = cases[ci * per:(ci + 1) * per]
        if not okc:
            coq_fail += 1
            ck.log("coq evaluation failed:", out[-600:])
            continue
        vals = parse_coq_value(parse_eval_outputs(out)[0])
        if len(vals) != len(chunk):
            coq_fail += 1
            continue
        for c, v in zip(chunk, vals):
            name = f"scenario{c['sc']['id']}-p{c['p']}"
            if isinstance(v, tuple) and v[0] == "inr":
                rejected += 1
                idx = v[1]
                if rejected <= 6:
                    ctx = [coq_ev(x) for x in c["tr"][max(0, idx - 7):idx + 1]]
                    ck.obligation(f"correspondence:trace-accepted-by-model:{name}", False,
                                  f"model rejects event #{idx}; cfg {c['cfg']}; context (last = rejected): {ctx}")
                    # the rejected history is the concrete failing input: the scenario replays it on the real code
                    ck.violation(f"the real consumer did something the start-position model (whose guards are the "
                                 f"property's clauses) does not allow: partition {c['p']} of scenario {c['sc']['id']}, "
                                 f"event #{idx} {ctx[-1] if ctx else ''} after {ctx[:-1]}",
                                 {"scenario": c["sc"], "partition": c["p"], "cfg": c["cfg"], "rejected_event_index": idx,
                                  "context": ctx},
                                 signature=f"trace-rejected:{(ctx[-1] if ctx else '').split(' ')[0]}")
                continue
            (mpos, mrst, mfirst, morigin, msurf) = v[1]
            mfirst = opt_val(mfirst)
            want_first = c["established"][0] if c["established"] else None
            good = True
            if opt_val(mpos) != c["final"]["pos"] or bool(mrst) != (c["final"]["awaiting"] is not None):
                good = False
            if (mfirst is None) != (want_first is None) or (mfirst is not None and mfirst[0] != want_first[1]):
                good = False
            if mfirst is not None and want_first is not None and (mfirst[1] == 4) != (want_first[0] == "seek"):
                good = False
            if list(msurf) != c["surfaced"][-len(msurf):] if msurf else False:
                good = False
            if c["problems"]:
                good = False
            if not good:
                mismatched += 1
                if mismatched <= 6:
                    ck.obligation(f"correspondence:model-output-equals-observed:{name}", False,
                                  f"model pos={opt_val(mpos)} awaiting={mrst} first={mfirst} origin={morigin} surfaced={msurf} "
                                  f"vs observed final={c['final']} established={c['established']} surfaced={c['surfaced']} "
                                  f"problems={c['problems']}"[:900])
            else:
                accepted += 1
    return accepted, rejected, mismatched, coq_fail


def new_hist():
    return {"mode": {}, "policy": {}, "iso": {"0": 0, "1": 0}, "committed": {}, "lo_version": {}, "faults": {},
            "inject": {}, "failed_runs": 0, "lookup_errors": 0, "list_offsets_errors": 0, "out_of_range": 0,
            "seek_won_over_inflight": 0, "lso_below_hw": 0}


def collect(ck, scs, results, hist):
    cases = []
    nbad = 0
    for sc, r in zip(scs, results):
        if not r.get("ok"):
            hist["failed_runs"] += 1
            ck.obligation(f"correspondence:simulation-ran:{sc['id']}", False, (r.get("error", "") + r.get("tb", ""))[-600:])
            continue
        if r.get("start_exc"):
            hist["start_failed"] = hist.get("start_failed", 0) + 1
            continue
        nbad += monitor(ck, sc, r)
        hist["mode"][sc["mode"]] = hist["mode"].get(sc["mode"], 0) + 1
        hist["policy"][sc["policy"]] = hist["policy"].get(sc["policy"], 0) + 1
        hist["iso"][str(sc["iso"])] += 1
        v = str((sc.get("api_ranges") or {}).get("2", [0, 3])[1])
        hist["lo_version"][v] = hist["lo_version"].get(v, 0) + 1
        for f in (sc.get("faults") or {}).values():
            hist["faults"][f["kind"]] = hist["faults"].get(f["kind"], 0) + 1
        if sc.get("inject"):
            kd = sc["inject"]["kind"]
            hist["inject"][kd] = hist["inject"].get(kd, 0) + 1
        for p in range(sc["partitions"]):
            tr, established, surfaced, problems = project(sc, r, p)
            truth = r["truth"][str(p)]
            cm = (sc.get("committed") or {}).get(str(p))
            ck_kind = "absent" if cm is None else ("below" if cm < truth["log_start"] else
                                                   ("beyond" if cm > truth["hw"] else "inside"))
            hist["committed"][ck_kind] = hist["committed"].get(ck_kind, 0) + 1
            hist["lookup_errors"] += sum(1 for e in tr if e[0] == "LookupErr")
            hist["list_offsets_errors"] += sum(1 for e in tr if e[0] == "ListOffsetsErr")
            hist["out_of_range"] += sum(1 for e in tr if e[0] == "OutOfRange")
            if truth["lso"] < truth["hw"]:
                hist["lso_below_hw"] += 1
            # a seek that landed while a lookup / reset was in flight
            infl = 0
            for e in tr:
                if e[0] in ("CommittedReq", "ListOffsetsSent"):
                    infl += 1
                elif e[0] in ("CommittedResp", "ListOffsetsResp", "ListOffsetsErr"):
                    infl = max(0, infl - 1)
                elif e[0] in ("Seek", "SeekTo") and infl:
                    hist["seek_won_over_inflight"] += 1
            cases.append({"sc": sc, "p": p, "tr": tr, "cfg": coq_cfg(sc, p), "established": established,
                          "surfaced": surfaced, "problems": problems, "final": r["final"][str(p)]})
            ck.count(key=(coq_cfg(sc, p), tuple(map(str, tr))), nontrivial=len(tr) > 3,
                     sample={"scenario": sc["id"], "mode": sc["mode"], "policy": sc["policy"], "iso": sc["iso"],
                             "committed": cm, "log_start": truth["log_start"], "hw": truth["hw"], "lso": truth["lso"],
                             "inject": sc.get("inject"), "faults": sc["faults"], "trace": [coq_ev(e) for e in tr][:40]}
                     if sc.get("inject") and any(e[0] == "ListOffsetsResp" for e in tr) else None)
    return cases, nbad


def run(ck: Check):
    ck.trusted += [
        "Coq 8.16.1 kernel; vm_compute for Examples, the refutation witness and trace replay",
        "model/C13_StartPos.v is hand-written; tied to the code by trace acceptance on every run, not by translation",
        "the simulated cluster (harness/simkit): ListOffsets (log start / high watermark / last stable offset by "
        "isolation level, v0..v3), OffsetFetch from the simulated group coordinator's offset store, FindCoordinator; "
        "harness/c03_loggen.py writes the logs",
        "observation points installed by harness/impl/c13_sim.py + c03_sim.py around Assignment.__init__, "
        "TopicPartitionState.fetch_committed / update_committed / reset_to / await_reset, "
        "GroupCoordinator._do_fetch_commit_offsets, Fetcher._proc_offset_request / seek_to / request_offset_reset / "
        "_set_error, FetchError.check_raise, AIOKafkaClient.send (Fetch only) (no source hooks); the injected user "
        "call runs at the first scheduling point after the chosen event (loop.call_soon)",
    ]
    ck.cov["rule"] = ("scenarios: mode (group+subscribe / group+assign / group-less assign) x policy (earliest / latest / "
                      "none) x isolation level x committed offset (absent / inside / below log start / beyond log end / at "
                      "the ends) x ListOffsets max version 0..3 x log start > 0 x open transaction (LSO < HW), directed "
                      "grid + random; 0-3 faults on ListOffsets / OffsetFetch / FindCoordinator / Fetch / Metadata "
                      "ordinals, leader migration; for a sample of base runs a user seek / seek_to_beginning / "
                      "seek_to_end injected after EVERY start-position event index.  One evaluation = one (scenario, "
                      "partition) trace; distinct by (configuration, projected trace)")
    import time as _t
    t0 = _t.time()
    ok_p, _ = ck.coq_props("C13")
    ck.log(f"proofs ok={ok_p} ({_t.time() - t0:.0f}s)")

    rng = random.Random(ck.seed * 7919 + 13)
    bases = []
    for fn in sorted(glob.glob(os.path.join(VERIF, "corpus", "C13", "*.json"))):
        sc = json.load(open(fn))
        sc["id"] = f"corpus-{os.path.basename(fn)[:-5]}"
        bases.append(sc)
    grid = directed_bases(100000)
    if not ck.thorough:
        grid = [sc for i, sc in enumerate(grid) if i % 3 == ck.seed % 3 or sc["committed"] == {"0": 25}]
    bases += grid
    bases += finding_scenarios(150000)
    bases += oor_inflight_scenarios(160000)
    bases += late_comer_scenarios(170000)
    bases += blocked_caller_scenarios(180000)
    bases += seek_to_committed_scenarios(190000)
    bases += [gen_base(rng, i) for i in range(ck.n(100, 700))]
    t0 = _t.time()
    results = c03.run_scenarios(bases, timeout=ck.n(600, 2400), script="c13_sim.py")
    # enumeration of the insertion points: every start-position event index of a sample of base runs
    inj_scs = []
    next_id = [200000]
    n_inj_bases = ck.n(12, 60)
    cand = [(sc, r) for sc, r in zip(bases, results) if r.get("ok") and not sc.get("inject") and not r.get("start_exc")]
    rng.shuffle(cand)
    # prefer bases that go through both lookups
    cand.sort(key=lambda x: -sum(x[1]["n_events"].values()))
    picked = cand[:n_inj_bases // 2] + rng.sample(cand[n_inj_bases // 2:], min(len(cand) - n_inj_bases // 2, n_inj_bases - n_inj_bases // 2))
    for bi, (sc, r) in enumerate(picked):
        kinds = ["seek", "seek_beg", "seek_end"] if (ck.thorough or bi < 2) else ["seek"]
        inj_scs += with_injections(sc, r["n_events"], kinds, next_id)
    inj_results = c03.run_scenarios(inj_scs, timeout=ck.n(600, 2400), script="c13_sim.py")
    ck.log(f"simulations took {_t.time() - t0:.0f}s ({len(bases)} base runs, {len(inj_scs)} runs with an injected user call)")
    hist = new_hist()
    scs = bases + inj_scs
    cases, nbad = collect(ck, scs, results + inj_results, hist)
    not_injected = sum(1 for sc, r in zip(inj_scs, inj_results) if r.get("ok") and not r.get("injected") and not r.get("start_exc"))
    hist["injection_point_not_reached"] = not_injected
    ck.extra["input_distribution"] = hist
    ck.log(f"{len(cases)} partition traces, monitor violations: {nbad}; {hist}")
    t0 = _t.time()
    accepted, rejected, mismatched, coq_fail = check_models(ck, cases)
    ck.log(f"replay inside Coq took {_t.time() - t0:.0f}s")
    ck.obligation("correspondence:all-traces-accepted-by-model", rejected == 0 and coq_fail == 0,
                  f"{rejected} rejected, {coq_fail} case files failed to evaluate")
    ck.obligation("correspondence:model-output-equals-observed", mismatched == 0, f"{mismatched} differ")
    ck.obligation("correspondence:every-simulation-ran", hist["failed_runs"] == 0, f"{hist['failed_runs']} failed")
    check_second_assignment(ck)
    ck.cov["traces_validated_against_impl"] = accepted
    ck.log(f"model acceptance: {len(cases)} traces, accepted={accepted}, rejected={rejected}, mismatched={mismatched}, "
           f"coq_fail={coq_fail}")


def replay(ck: Check, path):
    doc = json.load(open(path))
    rp = doc.get("replay", doc)
    sc = rp.get("scenario")
    if sc is None:
        ck.log("replay file names no scenario (broken obligation): re-running the check")
        run(ck)
        return ck.finish()
    results = c03.run_scenarios([sc], shards=1, script="c13_sim.py")
    hist = new_hist()
    cases, nbad = collect(ck, [sc], results, hist)
    accepted, rejected, mismatched, coq_fail = check_models(ck, cases, prefix="c13_replay")
    ck.obligation("correspondence:replayed-trace-accepted", rejected == 0 and mismatched == 0 and coq_fail == 0,
                  f"rejected={rejected} mismatched={mismatched}")
    ck.log(f"replay: monitor violations={nbad}, rejected={rejected}, mismatched={mismatched}")
    return ck.finish()
