"""C01 — per-partition produce order; no loss / no duplication under retries.
(1) proofs over model/Producer.v (+ translated increment_sequence_number);
(2) correspondence: the real AIOKafkaProducer under the deterministic simulator — every
    per-partition boundary trace must be accepted by the model and the model's log, verdicts and
    acknowledgements must equal the simulated leader's ground truth;
(3) independent monitors stating the property on the simulated logs."""
import json
import random

import prodsim
from common import Check, coq_list, coq_Z, parse_coq_value, parse_eval_outputs, run_impl

WRAP_SIG = "increment_sequence_number: counter crossing 2^31-1 becomes negative instead of wrapping to 0"


def check_incr(ck: Check):
    rng = ck.rng
    M = 2**31
    pairs = [(M - 1, 1), (M - 5, 3), (M - 5, 5), (0, 1), (0, M - 1), (1, M - 1), (M - 2, 2), (5, 7),
             (M - 1, M - 1), (M - 100, 1000)]
    for _ in range(ck.n(150, 1500)):
        s = rng.choice([rng.randrange(M), M - 1 - rng.randrange(2000), rng.randrange(1000)])
        n = rng.choice([1, rng.randrange(1, 5000), rng.randrange(1, M)])
        pairs.append((s, n))
    impl = run_impl("c01_incr_impl.py", {"pairs": pairs})["out"]
    body = ("Definition ps : list (Z * Z) := " + coq_list(pairs, lambda p: f"({coq_Z(p[0])}, {coq_Z(p[1])})") + ".\n"
            "Eval vm_compute in (map (fun '(s, n) => Producer.incr s n) ps).\n")
    ok, out = ck.coq_eval("c01_incr", ["Imp", "IncrSeq", "Producer"], body)
    agree = False
    detail = out[-400:]
    if ok:
        vals = parse_coq_value(parse_eval_outputs(out)[0])
        agree = vals == impl
        detail = "" if agree else f"first difference: {[(p, a, b) for p, a, b in zip(pairs, vals, impl) if a != b][:2]}"
    ck.obligation("correspondence:translated-increment-vs-python", agree, detail)
    # monitor: Kafka's rule 0..2^31-1 with wrap to 0
    nbad = 0
    for (s, n), got in zip(pairs, impl):
        want = (s + n) % M
        ck.count(key=("incr", s, n), nontrivial=True,
                 sample={"seq": s, "increment": n, "impl": got, "kafka": want} if s + n >= M and nbad == 0 else None)
        if got != want:
            nbad += 1
            if s + n >= M and isinstance(got, int) and got == s + n - 2**32:
                ck.violation(f"sequence {s} + {n} records -> {got}; Kafka's rule gives {want}",
                             {"kind": "incr", "start": s, "increment": n, "impl": got, "kafka": want},
                             signature=WRAP_SIG)
            else:
                ck.violation(f"increment_sequence_number({s}, {n}) = {got}, Kafka's rule gives {want}",
                             {"kind": "incr", "start": s, "increment": n, "impl": got, "kafka": want},
                             signature=f"incr:{s}:{n}")
    ck.extra["incr_pairs"] = len(pairs)


def monitor(ck, sc, r):
    """Independent statement of C01 on the simulated ground truth. Returns #violations."""
    bad = 0
    idem = sc["idempotent"]
    accepted = {s["rid"]: s for s in r["sends"] if "send_exc" not in s}
    task_order = {}
    for s in r["sends"]:
        if "send_exc" not in s:
            task_order.setdefault((s["task"], s["p"]), []).append(s["rid"])
    for part in range(sc["partitions"]):
        lg = r["logs"][str(part)]
        rids = [x["rid"] for x in lg["records"]]

        def viol(what, extra=None, sig=None):
            nonlocal bad
            bad += 1
            rp = {"scenario": sc, "partition": part, "log_rids": rids, "what": what}
            if extra:
                rp.update(extra)
            ck.violation(f"{what} (scenario {sc['id']}, partition {part})", rp,
                         signature=sig or f"sim:{what[:60]}")
        for x in rids:
            if x not in accepted or accepted[x]["p"] != part:
                viol("the log contains a record whose send() was not accepted for this partition", {"rid": x})
        firsts = []
        seen = set()
        for x in rids:
            if x not in seen:
                seen.add(x)
                firsts.append(x)
        if idem and len(firsts) != len(rids):
            viol("idempotent producer: a record was appended more than once",
                 {"duplicates": [x for x in set(rids) if rids.count(x) > 1]})
        for (task, p), order in task_order.items():
            if p != part:
                continue
            inlog = [x for x in firsts if x in set(order)]
            want = [x for x in order if x in seen]
            if inlog != want:
                viol("records of one sending task appear in the log out of send order",
                     {"task": task, "log_order": inlog, "send_order": want})
        if not idem:
            # duplicates only as whole re-sent batches
            groups = {}
            for x in lg["records"]:
                groups.setdefault(x["bidx"], []).append(x["rid"])
            blocks = list(groups.values())
            canon = {}
            for b in blocks:
                for x in b:
                    if x in canon and canon[x] != b:
                        viol("non-idempotent producer: a duplicate that is not a whole re-sent batch",
                             {"batch": b, "other": canon[x]})
                    canon[x] = b
        for s in r["sends"]:
            if s["p"] == part and s.get("state") == "ok" and s.get("md") is not None:
                if rids.count(s["rid"]) < 1:
                    viol("an acknowledged record is not in the log", {"rid": s["rid"]})
        for a in lg["arrivals"]:
            if idem:
                if a.get("verdict") == "out_of_order":
                    viol("the leader saw a sequence gap / reused sequence (OUT_OF_ORDER_SEQUENCE)", {"arrival": a})
                if a.get("seq") is not None and not (0 <= a["seq"] <= 2**31 - 1):
                    viol("a batch carried a sequence outside 0..2^31-1", {"arrival": a}, sig=WRAP_SIG)
        # at most one batch of the partition in flight (client side alternation)
        infl = False
        for e in r["trace"]:
            if e["ev"].startswith("c_") and e["tp"][1] == part:
                if e["ev"] == "c_drain":
                    if infl:
                        viol("two batches of one partition in flight at the same time")
                        break
                    infl = True
                elif e["ev"] in ("c_ok", "c_retry", "c_fatal"):
                    infl = False
    return bad


def check_transactional(ck: Check):
    """The transactional producer is an idempotent producer whose batches can also be dropped or waited for by
    commit_transaction() / abort_transaction().  Real AIOKafkaProducer(transactional_id=...) under C07's driver:
    retriable Produce faults only, the transaction ended (commit or abort, not waiting for the sends) at each time
    of a grid - in particular while a batch that already owns its sequence numbers sits re-enqueued - then a
    second transaction on the same partitions.  C01's clauses on the leaders' ground truth: no sequence gap or
    reuse is ever presented, every accepted record is appended at most once, every acknowledged one exactly once,
    and per partition the first occurrences follow the order of issue."""
    import c07
    rng = random.Random(ck.seed * 6151 + 101)
    scs = []
    sid = 10000
    for ea in c07.REENQ_END_AFTER + [0.03, 0.045, 0.06, 0.1, 0.2]:
        for end in ("abort", "commit"):
            for code in ck.n([6], [6, 3, 7, 19]):
                scs.append(c07.gen_abort_reenqueued_scenario(rng, sid, ea, code=code, end=end))
                sid += 1
    for _ in range(ck.n(6, 150)):
        sc = c07.gen_scenario(rng, sid)
        sid += 1
        sc["instances"] = sc["instances"][:1]
        for _f in range(rng.choice([1, 2])):
            kind, code = rng.choice(c07.RETRIABLE_FAULTS["Produce"])
            sc["faults"][f"Produce:{rng.randrange(1, 5)}"] = c07.mk_fault(kind, code)
        scs.append(sc)
    results = c07.run_scenarios(scs, timeout=900)
    nbad = {}
    ran = 0

    def viol(sig, what, sc, r):
        nbad[sig] = nbad.get(sig, 0) + 1
        if nbad[sig] <= 3:
            ck.violation(f"{what} (transactional scenario {sc['id']}, family {sc.get('family', 'random')})",
                         {"driver": "c07_impl.py", "scenario": sc, "what": what, "txns": r["txns"],
                          "sends": r["sends"],
                          "arrivals": {p: [[a.get("seq"), a.get("count"), a["verdict"]] for a in lg["arrivals"]]
                                       for p, lg in r["logs"].items()}},
                         signature="transactional:" + sig)

    for sc, r in zip(scs, results):
        if not r.get("ok"):
            continue
        ran += 1
        state = {sd["rid"]: sd for sd in r["sends"]}
        for p in range(sc["partitions"]):
            lg = r["logs"][str(p)]
            gaps = [(a.get("seq"), a.get("count")) for a in lg["arrivals"] if a["verdict"] == "out_of_order"]
            if gaps:
                viol("sequence-gap", f"partition {p}: the leader was presented with out-of-sequence batches "
                     f"(base sequence, count) {gaps} although only retriable faults occurred", sc, r)
            rids = [rid for b in lg["batches"] if not b["control"] for rid in b["rids"]]
            dup = sorted({x for x in rids if rids.count(x) > 1})
            if dup:
                viol("duplicate", f"partition {p}: records {dup} were appended more than once", sc, r)
            unknown = [x for x in rids if state.get(x, {}).get("state") in (None, "refused", "call")]
            if unknown:
                viol("not-accepted", f"partition {p}: records {unknown} were appended but their send() was never "
                     f"accepted", sc, r)
            acked = [x for x, sd in state.items() if sd["p"] == p and sd.get("state") == "ok"]
            missing = [x for x in acked if x not in rids]
            if missing:
                viol("acked-missing", f"partition {p}: records {missing} were acknowledged but are not in the log",
                     sc, r)
        seqerr = [(sd["rid"], sd.get("exc")) for sd in r["sends"] if sd.get("exc") == "OutOfOrderSequenceNumber"]
        if seqerr:
            viol("sequence-error", f"send futures failed with a sequence error under retriable faults: {seqerr}",
                 sc, r)
        ck.count(key=("txn", json.dumps(sc["instances"], sort_keys=True), json.dumps(sc["faults"], sort_keys=True)),
                 nontrivial=any(e["ev"] == "c_retry" for e in r["trace"]))
    ck.obligation("correspondence:transactional-scenarios-ran", ran == len(scs),
                  f"{len(scs) - ran} of {len(scs)} scenarios failed to run")
    ck.extra["transactional_family"] = {"scenarios": len(scs), "violations": nbad}
    ck.log(f"transactional family: {len(scs)} scenarios, violations {nbad}")


def run(ck: Check):
    ck.trusted += [
        "Coq 8.16.1 kernel; vm_compute for the non-vacuity Example, the refutation witness and trace replay",
        "the transactional producer is not in Producer.v: it runs on C07's driver (harness/impl/c07_impl.py, simulated "
        "transaction coordinator) and is judged by monitors on the leaders' arrival records only",
        "translator/py2gallina.py for increment_sequence_number (validated per run against the real method)",
        "the simulated cluster (harness/simkit): partition leader's idempotence rule written from Kafka's "
        "ProducerStateManager semantics; it is the oracle for what a broker would do",
        "observation points installed by the harness around MessageBatch.append/done/failure and "
        "MessageAccumulator._pop_batch/reenqueue (no source hooks); asyncio ready-queue order is one fixed "
        "order per schedule",
        "model/Producer.v is hand-written; tied to the code by trace acceptance on every run",
    ]
    ck.cov["rule"] = ("scenarios: 1-4 sending tasks x 1-3 partitions x 1-3 brokers, random batch boundaries "
                      "(max_batch_size, linger, gzip), 0-5 faults placed on Produce/Metadata request ordinals "
                      "(drop before/after apply, lost reply, retriable error codes, delays), leader migration, "
                      "leaderless periods; one evaluation = one (scenario, partition) trace; non-trivial = the "
                      "trace contains at least one Arrive; distinct by the projected trace")
    ok_t, _ = ck.regenerate(["IncrSeq"])
    ok_p, _ = ck.coq_props("C01")
    ck.log(f"translation ok={ok_t}, proofs ok={ok_p}")
    if ok_t:
        check_incr(ck)

    # ---- simulations
    rng = random.Random(ck.seed * 7919 + 1)
    n = ck.n(96, 1600)
    scs = []
    import glob, json, os
    from common import VERIF
    for fn in sorted(glob.glob(os.path.join(VERIF, "corpus", "C01", "*.json"))):
        scs.append(json.load(open(fn)))        # minimised past failures run first
    for i in range(n):
        sc = prodsim.gen_scenario(rng, i, idempotent=(i % 4 != 3))
        # a third of the runs: flush() while batches are still lingering / in flight (a flushed batch must be
        # stamped and ordered exactly like a batch drained by the linger timer)
        if rng.random() < 0.35:
            sc["linger_ms"] = rng.choice([5, 50, 200])
            sc["flush_after"] = [rng.choice([0.0005, 0.002, 0.011, 0.05, 0.101, 0.3]) for _ in range(rng.choice([1, 2]))]
        scs.append(sc)
    # stop() issued while batches are in flight / in retry back-off and more are queued behind them (small batches,
    # several send tasks, retriable faults): what is written until the producer is gone still obeys every clause
    import c02 as _c02
    rng_stop = random.Random(ck.seed * 7121 + 111)
    for j in range(ck.n(40, 400)):
        sc = _c02.gen_parked_stop(rng_stop, 600000 + j)
        sc["idempotent"] = j % 5 != 4
        if not sc["idempotent"]:
            sc.setdefault("acks", 1)
        sc["stop_after"] = rng_stop.choice([0.002, 0.005, 0.01, 0.03, 0.06, 0.1, 0.2])
        scs.append(sc)
    rng_old = random.Random(ck.seed * 7121 + 101)
    for j in range(ck.n(24, 300)):
        scs.append(prodsim.old_broker(prodsim.gen_scenario(rng_old, 700000 + j, idempotent=(j % 4 != 3)), rng_old))
    # flush() on a lingering batch followed by a lost reply: the re-sent batch must be recognised by the leader
    for j in range(ck.n(16, 160)):
        sc = prodsim.gen_scenario(rng, 500000 + j, idempotent=True, n_faults=0)
        sc["linger_ms"] = rng.choice([50, 200, 500])
        sc["flush_after"] = [rng.choice([0.001, 0.004, 0.02])]
        sc["faults"] = {str(rng.randrange(1, 4)): {"kind": rng.choice(["drop_after", "no_reply"])}}
        scs.append(sc)
    # systematic single-fault placement over one base run (fault enumeration)
    base_rng = random.Random(12345)
    base = prodsim.gen_scenario(base_rng, 0, idempotent=True, n_faults=0, brokers=2, partitions=2)
    k = n
    for ordinal in range(1, ck.n(7, 13)):
        for kind in ("drop_before", "drop_after", "no_reply", "error"):
            sc = dict(base)
            sc["id"] = k
            sc["faults"] = {str(ordinal): {"kind": kind, "code": 6}}
            scs.append(sc)
            k += 1
    # persistent retriable error replies for one partition, longer than the batch ttl
    # (= request_timeout_ms), followed by later sends to the same partition
    for code in prodsim.RETRIABLE_CODES:
        for dur in ((3.0,) if not ck.thorough else (0.5, 2.5, 3.0, 6.0)):
            for idem in (True, False):
                scs.append({"id": k, "seed": k, "brokers": 1, "partitions": 2, "ts_type": 0, "idempotent": idem,
                            "acks": "all", "linger_ms": 0, "max_batch_size": 16384, "compression": None,
                            "request_timeout_ms": 2000, "retry_backoff_ms": 50,
                            "tasks": [[{"rid": 0, "p": 0, "sleep": 0.01}, {"rid": 1, "p": 1, "sleep": 0.0},
                                       {"rid": 2, "p": 0, "sleep": dur + 0.5}, {"rid": 3, "p": 0, "sleep": 0.4}]],
                            "faults": {}, "migrations": [], "leaderless": [],
                            "error_windows": [{"from": 0.0, "to": dur, "code": code, "partition": 0}],
                            "resolve_within": 30})
                k += 1
    # leader migration while a batch is in flight / in its retry backoff, with a later send to the same
    # partition inside that window (the partition must stay muted until the retry is re-enqueued)
    for idem in (False, True):
        for m in (0.05, 0.08) if not ck.thorough else (0.03, 0.05, 0.065, 0.08, 0.12):
            for d0 in (-0.0005, -0.002):    # just after the migration: client metadata still names the old leader
                for d1 in (0.01, 0.03, 0.06):
                    scs.append({"id": k, "seed": k, "brokers": 2, "partitions": 1, "ts_type": 0, "idempotent": idem,
                                "acks": 1 if not idem else "all", "linger_ms": 0, "max_batch_size": 16384,
                                "compression": None, "request_timeout_ms": 2000, "retry_backoff_ms": 100,
                                "latency": [0.001, 0.002],
                                # a first record before the migration so that the topic's metadata is cached
                                "tasks": [[{"rid": 0, "p": 0, "sleep": 0.0},
                                           {"rid": 1, "p": 0, "sleep": round(m - d0, 6)},
                                           {"rid": 2, "p": 0, "sleep": round(d0 + d1, 6)},
                                           {"rid": 3, "p": 0, "sleep": 0.2}]],
                                "faults": {}, "leaderless": [],
                                "migrations": [{"at": m, "partition": 0, "to": 1}], "resolve_within": 30})
                    k += 1
    # the same window for an acks=0 producer: there is no reply to wait for, so the batch gets into its retry back-off
    # only through a request-level failure (the old leader is down: the connection is refused); the
    # partition must stay muted through the back-off all the same
    for m in (0.05, 0.08):
        for mg in (0.002, 0.005, 0.01):       # the election completes shortly after the old leader went down
            for d1 in (0.01, 0.03, 0.06, 0.09):
                scs.append({"id": k, "seed": k, "brokers": 2, "partitions": 1, "ts_type": 0, "idempotent": False,
                            "acks": 0, "linger_ms": 0, "max_batch_size": 16384, "compression": None,
                            "request_timeout_ms": 2000, "retry_backoff_ms": 100, "latency": [0.001, 0.002],
                            "tasks": [[{"rid": 0, "p": 0, "sleep": 0.0},
                                       {"rid": 1, "p": 0, "sleep": round(m + 0.0005, 6)},
                                       {"rid": 2, "p": 0, "sleep": round(d1, 6)},
                                       {"rid": 3, "p": 0, "sleep": 0.3}]],
                            "faults": {}, "leaderless": [], "outages": [{"at": m, "nodes": [0], "for": 5.0}],
                            "migrations": [{"at": round(m + mg, 6), "partition": 0, "to": 1}], "resolve_within": 30,
                            "family": "acks0-failover-in-backoff"})
                k += 1
    results = prodsim.run_scenarios(scs, timeout=ck.n(600, 2400))
    traces = []
    hist = {"faults": {}, "idempotent": 0, "nonidempotent": 0, "retries": 0, "duplicates": 0, "failed_runs": 0}
    nbad = 0
    for sc, r in zip(scs, results):
        if not r.get("ok"):
            hist["failed_runs"] += 1
            ck.obligation(f"correspondence:simulation-ran:{sc['id']}", False, r.get("error", "")[:300] + r.get("tb", "")[-300:])
            continue
        hist["idempotent" if sc["idempotent"] else "nonidempotent"] += 1
        for f in (sc.get("faults") or {}).values():
            hist["faults"][f["kind"]] = hist["faults"].get(f["kind"], 0) + 1
        nbad += monitor(ck, sc, r)
        if sc.get("acks") == 0:
            # acks=0: futures are resolved when the request is written, before the leader sees it; the life-cycle model
            # (reply after arrival) does not describe that - these runs are judged by the monitors (order, no stray or
            # duplicated-in-part records) only
            hist["acks0_monitor_only"] = hist.get("acks0_monitor_only", 0) + 1
            ck.count(key=("acks0", sc["id"]), nontrivial=bool(sc.get("faults")))
            continue
        for part in range(sc["partitions"]):
            tr, verdicts = prodsim.project(r, part)
            hist["retries"] += sum(1 for e in tr if e[0] == "ReplyRetry")
            hist["duplicates"] += verdicts.count("Duplicate")
            log_rids = [x["rid"] for x in r["logs"][str(part)]["records"]]
            acked = sorted(s["rid"] for s in r["sends"] if s["p"] == part and s.get("state") == "ok")
            blocks = {}
            for x in r["logs"][str(part)]["records"]:
                blocks.setdefault(x["bidx"], []).append(x["rid"])
            traces.append({"sc": sc, "part": part, "tr": tr, "verdicts": verdicts, "log": log_rids,
                           "acked": acked, "blocks": list(blocks.values())})
            ck.count(key=tuple(tr), nontrivial=any(e[0] == "Arrive" for e in tr),
                     sample={"scenario": sc["id"], "partition": part, "idempotent": sc["idempotent"],
                             "faults": sc["faults"], "trace": [" ".join(str(x) for x in e) for e in tr][:40],
                             "log": log_rids} if len(tr) > 12 and any(e[0] == "ReplyRetry" for e in tr) else None)
    ck.extra["input_distribution"] = hist
    ck.log(f"simulated {len(scs)} scenarios, {len(traces)} partition traces, monitor violations: {nbad}; {hist}")

    # ---- trace acceptance by the Coq model
    bodies = []
    per = 150
    for i in range(0, len(traces), per):
        chunk = traces[i:i + per]
        lines = []
        for t in chunk:
            if t["sc"]["idempotent"]:
                lines.append(f"Eval vm_compute in (replay init0 {prodsim.coq_trace(t['tr'])}).")
            else:
                lines.append(f"Eval vm_compute in (nreplay {prodsim.coq_trace(t['tr'])}).")
        bodies.append("\n".join(lines) + "\n")
    res = ck.coq_eval_sharded("c01_traces", ["Imp", "IncrSeq", "Producer"], bodies) if ok_p or True else []
    rejected = 0
    mismatched = 0
    coq_fail = 0
    for ci, (okc, out) in enumerate(res):
        chunk = traces[ci * per:(ci + 1) * per]
        if not okc:
            coq_fail += 1
            continue
        vals = [parse_coq_value(v) for v in parse_eval_outputs(out)]
        if len(vals) != len(chunk):
            coq_fail += 1
            continue
        for t, v in zip(chunk, vals):
            sc = t["sc"]
            if isinstance(v, tuple) and v[0] == "inr":
                rejected += 1
                idx = v[1]
                ev = t["tr"][idx] if idx < len(t["tr"]) else None
                if rejected <= 5:
                    ck.obligation(f"correspondence:trace-accepted:scenario{sc['id']}-p{t['part']}", False,
                                  f"model rejects event #{idx} {ev} of the trace; scenario faults={sc['faults']}")
                    ck.violation(f"the real producer did something the producer model (whose guards are the property's "
                                 f"clauses) does not allow: partition {t['part']} of scenario {sc['id']}, event #{idx} {ev} "
                                 f"after {t['tr'][max(0, idx - 6):idx]}",
                                 {"scenario": sc, "partition": t["part"], "rejected_event_index": idx,
                                  "context": t["tr"][max(0, idx - 8):idx + 1]},
                                 signature=f"trace-rejected:{ev[0] if ev else ''}")
                    # a rejected trace is a broken correspondence; whether the property itself fails
                    # is what the monitor decides (it saw the same run).
                continue
            if isinstance(v, tuple) and v[0] == "inl":
                val = v[1]
                if sc["idempotent"]:
                    mlog, mverd, macked = val
                    codes = [{"Appended": 0, "Duplicate": 1, "OutOfOrder": 2}[x] for x in t["verdicts"]]
                    if mlog != t["log"] or mverd != codes or sorted(macked) != t["acked"]:
                        mismatched += 1
                        if mismatched <= 5:
                            ck.obligation(f"correspondence:model-output-equals-broker:scenario{sc['id']}-p{t['part']}",
                                          False, f"model log {mlog} verdicts {mverd} acked {sorted(macked)} vs "
                                          f"broker log {t['log']} verdicts {codes} acked {t['acked']}")
                else:
                    if val != t["blocks"]:
                        mismatched += 1
                        if mismatched <= 5:
                            ck.obligation(f"correspondence:model-output-equals-broker:scenario{sc['id']}-p{t['part']}",
                                          False, f"model log {val} vs broker batches {t['blocks']}")
    ck.obligation("correspondence:all-traces-accepted-by-model", rejected == 0 and coq_fail == 0,
                  f"{rejected} rejected, {coq_fail} case files failed to evaluate")
    ck.obligation("correspondence:model-log-equals-simulated-leader-log", mismatched == 0, f"{mismatched} differ")
    ck.cov["traces_validated_against_impl"] = len(traces) - rejected - mismatched
    ck.log(f"model acceptance: {len(traces)} traces, rejected={rejected}, mismatched={mismatched}, coq_fail={coq_fail}")
    check_transactional(ck)
