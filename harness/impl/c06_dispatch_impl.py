"""Run the real response handlers of the group coordinator on one error code each and report the
recovery actions they perform (validation of translator/dispatch2gallina.py on every run)."""
import asyncio
import json
import sys

import aiokafka.errors as Errors
import aiokafka.consumer.group_coordinator as gc
from aiokafka.consumer.group_coordinator import CoordinatorGroupRebalance, GroupCoordinator
from aiokafka.structs import OffsetAndMetadata, TopicPartition

import logging
logging.disable(logging.CRITICAL)
req = json.load(sys.stdin)


class Resp:
    pass


class Sub:
    active = True
    topics = {"t"}


def mk_coord(acts, replies):
    it = iter(replies)

    class Coord:
        group_id = "g"
        member_id = "m1"
        generation = 3
        coordinator_id = 0
        _group_instance_id = None
        _rebalance_timeout_ms = 1000
        _retry_backoff_ms = 100
        _rejoin_needed_fut = None

        def reset_generation(self):
            acts.append("AResetGeneration")

        def coordinator_dead(self):
            acts.append("ACoordinatorDead")

        def request_rejoin(self):
            acts.append("ARequestRejoin")

        async def _perform_assignment(self, response):
            return {response.member_id: b"A"}

        async def _send_req(self, request):
            try:
                return next(it)
            except StopIteration:
                raise asyncio.CancelledError()
    return Coord()


def terminal(exc, code):
    if exc is None:
        return None
    if type(exc) is Errors.KafkaError:
        return "ARaiseUnexpected"
    if type(exc) is Errors.for_code(code):
        return "ARaiseSame"
    return "ARaiseOther:" + type(exc).__name__


async def one(api, code):
    acts = []
    real_sleep = asyncio.sleep

    async def fake_sleep(d, *a, **k):
        acts.append("ABackoff")
        await real_sleep(0)
    gc.asyncio.sleep = fake_sleep
    try:
        r = Resp()
        r.error_code = code
        r.member_id = "m9"
        r.generation_id = 4
        r.leader_id = "other"
        r.group_protocol = "range"
        r.members = []
        r.member_assignment = b"A"
        ret = None
        exc = None
        try:
            if api == "heartbeat":
                coord = mk_coord(acts, [r])
                ret = await GroupCoordinator._do_heartbeat(coord)
                ret = {True: "RTrue", False: "RFalse", None: "RNone"}.get(ret, "RValue")
            elif api in ("join", "joinretry"):
                coord = mk_coord(acts, [r])      # a second request ends the script
                rb = CoordinatorGroupRebalance(coord, "g", 0, Sub(), [type("A", (), {
                    "name": "range", "metadata": lambda self, t: b"md"})()], 1000, 1)
                try:
                    res = await rb.perform_group_join()
                    ret = "RNone" if res is None else "RValue"
                except asyncio.CancelledError:
                    ret = "Retried"
            elif api == "sync":
                coord = mk_coord(acts, [r])
                rb = CoordinatorGroupRebalance(coord, "g", 0, Sub(), [], 1000, 1)
                from aiokafka.protocol.group import SyncGroupRequest
                res = await rb._send_sync_group_request(SyncGroupRequest("g", 3, "m1", None, []))
                ret = "RNone" if res is None else "RValue"
            elif api == "commit":
                r.topics = [("t", [(0, code)])]
                coord = mk_coord(acts, [r])
                tp = TopicPartition("t", 0)
                res = await GroupCoordinator._do_commit_offsets(coord, None, {tp: OffsetAndMetadata(5, "")})
                ret = "RNone"
        except Exception as e:  # noqa: BLE001
            exc = e
        return {"api": api, "code": code, "acts": acts, "ret": ret, "raise": terminal(exc, code)}
    finally:
        gc.asyncio.sleep = real_sleep


async def main():
    return [await one(c["api"], c["code"]) for c in req["cases"]]

print(json.dumps({"out": asyncio.run(main())}))
