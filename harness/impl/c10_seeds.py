"""Builds the seed set for C10 with the REAL builders of /repo (pure-Python builders, which
C09 checks against the compiled ones): valid v0 / v1 / v2 buffers, plain and compressed, plus
the byte offsets of their length / count / varint fields.  Runs under the repo's interpreter
with AIOKAFKA_NO_EXTENSIONS=1.  JSON on the last stdout line.

A seed: {"name", "hex", "magic", "fields": [{"off", "kind": "i32"|"i16"|"i8"|"varint", "len", "name"}],
         "inner": {"codec", "payload_off", "payload_hex", "inner_hex", "inner_fields": [...]}?}
"""
import json
import struct
import sys
import time
import zlib

time.time = lambda: 1700000000.0   # gzip header mtime: keep the seeds identical from run to run

from aiokafka.codec import gzip_encode, lz4_encode, snappy_encode, zstd_encode
from aiokafka.record._crc32c import crc as crc32c
from aiokafka.record.default_records import _DefaultRecordBatchBuilderPy as V2B
from aiokafka.record.legacy_records import _LegacyRecordBatchBuilderPy as LB


def rd_varint(b, pos):
    shift = 0
    val = 0
    start = pos
    while True:
        x = b[pos]
        pos += 1
        val |= (x & 0x7F) << shift
        if not x & 0x80:
            break
        shift += 7
    return (val >> 1) ^ -(val & 1), pos, pos - start


def v2_record_fields(b, pos, count, base=0):
    """offsets of the varint fields of `count` records starting at pos of b"""
    fs = []

    def vi(name):
        nonlocal pos
        v, p2, ln = rd_varint(b, pos)
        fs.append({"off": base + pos, "kind": "varint", "len": ln, "name": name})
        pos = p2
        return v

    for r in range(count):
        vi(f"r{r}.length")
        vi(f"r{r}.attrs")
        vi(f"r{r}.ts_delta")
        vi(f"r{r}.offset_delta")
        kl = vi(f"r{r}.key_len")
        if kl > 0:
            pos += kl
        vl = vi(f"r{r}.value_len")
        if vl > 0:
            pos += vl
        hc = vi(f"r{r}.header_count")
        for h in range(hc):
            hk = vi(f"r{r}.h{h}.key_len")
            pos += hk
            hv = vi(f"r{r}.h{h}.value_len")
            if hv > 0:
                pos += hv
    return fs


V2_HEADER_FIELDS = [
    (0, "i64", 8, "base_offset"), (8, "i32", 4, "length"), (12, "i32", 4, "leader_epoch"), (16, "i8", 1, "magic"),
    (17, "i32", 4, "crc"), (21, "i16", 2, "attributes"), (23, "i32", 4, "last_offset_delta"),
    (27, "i64", 8, "first_timestamp"), (35, "i64", 8, "max_timestamp"), (43, "i64", 8, "producer_id"),
    (51, "i16", 2, "producer_epoch"), (53, "i32", 4, "base_sequence"), (57, "i32", 4, "record_count")]


def v2_seed(name, recs, codec=0, transactional=0, pid=-1, attr_or=0):
    """Plain batch from the real builder; for a compressed seed the records section is compressed
    with the real codec and the header (attributes, length, crc) is adjusted here, because the
    builder declines to compress when the result is not smaller."""
    b = V2B(2, 0, transactional, pid, 0 if pid >= 0 else -1, 0 if pid >= 0 else -1, 1 << 20)
    for i, (ts, k, v, hs) in enumerate(recs):
        assert b.append(i, ts, k, v, hs) is not None
    data = bytearray(b.build())
    plain = bytes(data[61:])
    if codec:
        enc = {1: gzip_encode, 2: snappy_encode, 3: lz4_encode, 4: zstd_encode}[codec]
        data = data[:61] + enc(plain)
        struct.pack_into(">i", data, 8, len(data) - 12)
        attr_or |= codec
    if attr_or:
        a = struct.unpack_from(">h", data, 21)[0] | attr_or
        struct.pack_into(">h", data, 21, a)
    struct.pack_into(">I", data, 17, crc32c(bytes(data[21:])))
    fields = [{"off": o, "kind": k, "len": ln, "name": n} for (o, k, ln, n) in V2_HEADER_FIELDS]
    seed = {"name": name, "magic": 2, "hex": bytes(data).hex(), "fields": fields}
    if codec == 0:
        fields += v2_record_fields(data, 61, len(recs))
    else:
        seed["inner"] = {"codec": codec, "payload_off": 61, "inner_hex": plain.hex(),
                         "inner_fields": v2_record_fields(plain, 0, len(recs))}
    return seed


def legacy_fields(b, pos, magic, prefix=""):
    ko = 26 if magic == 1 else 18
    fs = [{"off": pos + 0, "kind": "i64", "len": 8, "name": prefix + "offset"},
          {"off": pos + 8, "kind": "i32", "len": 4, "name": prefix + "length"},
          {"off": pos + 12, "kind": "i32", "len": 4, "name": prefix + "crc"},
          {"off": pos + 16, "kind": "i8", "len": 1, "name": prefix + "magic"},
          {"off": pos + 17, "kind": "i8", "len": 1, "name": prefix + "attributes"}]
    if magic == 1:
        fs.append({"off": pos + 18, "kind": "i64", "len": 8, "name": prefix + "timestamp"})
    fs.append({"off": pos + ko, "kind": "i32", "len": 4, "name": prefix + "key_len"})
    kl = struct.unpack_from(">i", b, pos + ko)[0]
    p = pos + ko + 4 + (kl if kl > 0 else 0)
    fs.append({"off": p, "kind": "i32", "len": 4, "name": prefix + "value_len"})
    return fs


def legacy_seed(name, magic, recs, codec=0):
    b = LB(magic, codec, 1 << 20)
    for i, (ts, k, v) in enumerate(recs):
        assert b.append(i, ts, k, v) is not None
    data = bytes(b.build())
    seed = {"name": name, "magic": magic, "hex": data.hex()}
    if codec == 0:
        fs = []
        pos = 0
        i = 0
        while pos < len(data):
            fs += legacy_fields(data, pos, magic, f"m{i}.")
            pos += 12 + struct.unpack_from(">i", data, pos + 8)[0]
            i += 1
        seed["fields"] = fs
    else:
        seed["fields"] = legacy_fields(data, 0, magic, "w.")
        b2 = LB(magic, 0, 1 << 20)
        for i, (ts, k, v) in enumerate(recs):
            b2.append(i, ts, k, v)
        plain = bytes(b2.build())
        fs = []
        pos = 0
        i = 0
        while pos < len(plain):
            fs += legacy_fields(plain, pos, magic, f"in{i}.")
            pos += 12 + struct.unpack_from(">i", plain, pos + 8)[0]
            i += 1
        ko = 26 if magic == 1 else 18
        seed["inner"] = {"codec": codec, "payload_off": ko + 8, "inner_hex": plain.hex(), "inner_fields": fs}
    return seed


def main():
    req = json.load(sys.stdin)
    n = req.get("n", 40)
    seeds = []
    R1 = [(1000, None, None, [])]
    R2 = [(1000, b"k", b"value", [("h", b"x")])]
    R3 = [(1000, b"key-0", b"value-0", []), (1001, None, b"v1", [("hdr", None), ("h2", b"")]),
          (1002, b"k2", None, [("é", b"\xff")])]
    R4 = [(5, b"", b"", [])]
    R5 = [(1 << 40, b"K" * 70, b"V" * 130, [("a" * 3, b"b" * 5)] * 3)]
    seeds.append(v2_seed("v2-1rec-null", R1))
    seeds.append(v2_seed("v2-1rec-kvh", R2))
    seeds.append(v2_seed("v2-3rec", R3))
    seeds.append(v2_seed("v2-gzip-3rec", R3, codec=1))
    seeds.append(legacy_seed("v1-1rec", 1, [(123, b"key", b"val")]))
    seeds.append(legacy_seed("v0-1rec", 0, [(None, b"key", b"val")]))
    seeds.append(legacy_seed("v1-gzip-2rec", 1, [(123, b"key", b"val"), (124, None, b"v2")], codec=1))
    seeds.append(legacy_seed("v0-gzip-2rec", 0, [(None, b"key", b"val"), (None, b"k", None)], codec=1))
    seeds.append(v2_seed("v2-empty-kv", R4))
    seeds.append(v2_seed("v2-logappend", R2, attr_or=0x08))
    seeds.append(legacy_seed("v1-nullkey", 1, [(5, None, b"val")]))
    seeds.append(legacy_seed("v0-nullvalue", 0, [(None, b"key", None)]))
    seeds.append(v2_seed("v2-txn", R2, transactional=1, pid=77))
    seeds.append(v2_seed("v2-control", [(1000, b"\x00\x00\x00\x00", b"\x00\x00\x00\x00\x00\x00", [])],
                         transactional=1, pid=77, attr_or=0x20))
    seeds.append(v2_seed("v2-gzip-1rec", R2, codec=1))
    seeds.append(legacy_seed("v1-gzip-1rec", 1, [(123, b"key", b"val")], codec=1))
    seeds.append(v2_seed("v2-big", R5))
    seeds.append(legacy_seed("v1-3rec", 1, [(1, b"a", b"b"), (2, b"", b""), (3, None, None)]))
    seeds.append(legacy_seed("v0-3rec", 0, [(None, b"a", b"b"), (None, b"", b""), (None, None, None)]))
    seeds.append(v2_seed("v2-snappy", R3, codec=2))
    seeds.append(v2_seed("v2-lz4", R3, codec=3))
    seeds.append(v2_seed("v2-zstd", R3, codec=4))
    seeds.append(legacy_seed("v1-snappy", 1, [(123, b"key", b"val")], codec=2))
    seeds.append(legacy_seed("v1-lz4", 1, [(123, b"key", b"val")], codec=3))
    seeds.append(legacy_seed("v0-gzip-3rec", 0, [(None, b"a", b"b"), (None, b"", b""), (None, None, None)], codec=1))
    seeds.append(v2_seed("v2-gzip-logappend", R3, codec=1, attr_or=0x08))
    seeds.append(v2_seed("v2-2rec-nohdr", [(7, b"a", b"b", []), (9, b"c", b"d", [])]))
    seeds.append(legacy_seed("v1-bigval", 1, [(99, b"k" * 9, b"v" * 140)]))
    seeds.append(v2_seed("v2-hdrs", [(1, None, None, [("k1", b"v1"), ("k2", None), ("", b"")])]))
    seeds.append(legacy_seed("v1-gzip-3rec", 1, [(1, b"a", b"b"), (2, b"", b""), (3, None, None)], codec=1))
    # LogAppendTime legacy wrapper: set attribute bit 3 on the wrapper and recompute its crc
    s = legacy_seed("v1-gzip-logappend", 1, [(123, b"key", b"val"), (124, None, b"v2")], codec=1)
    d = bytearray.fromhex(s["hex"])
    d[17] |= 0x08
    struct.pack_into(">I", d, 12, zlib.crc32(bytes(d[16:])) & 0xFFFFFFFF)
    s["hex"] = bytes(d).hex()
    seeds.append(s)
    seeds.append(v2_seed("v2-neg-ts", [(0, b"k", b"v", [])]))
    seeds.append(legacy_seed("v0-empty-kv", 0, [(None, b"", b"")]))
    seeds.append(v2_seed("v2-4rec", [(i, bytes([65 + i]), bytes([97 + i]) * i, []) for i in range(4)]))
    seeds.append(v2_seed("v2-gzip-big", R5, codec=1))
    seeds.append(legacy_seed("v0-snappy", 0, [(None, b"key", b"val")], codec=2))
    seeds.append(v2_seed("v2-idempotent", R3, pid=12345))
    seeds.append(legacy_seed("v1-2rec", 1, [(10, b"x", b"y"), (11, b"z", None)]))
    seeds.append(v2_seed("v2-utf8-hdr", [(1, b"k", b"v", [("€\U0001f600", b"z")])]))
    seeds.append(legacy_seed("v1-gzip-nullval", 1, [(1, b"k", None)], codec=1))
    seeds = seeds[:n]
    print(json.dumps({"seeds": seeds}))


main()
