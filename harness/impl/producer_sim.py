"""Runs producer scenarios under the simulator (C01, C02).  Executed by /venv/bin/python with
PYTHONPATH=/repo, AIOKAFKA_NO_EXTENSIONS=1.  stdin: {"scenarios": [...]}; stdout (last
line): {"results": [...]}.

A scenario:
  {"id", "seed", "brokers", "partitions", "ts_type", "idempotent", "acks", "linger_ms",
   "max_batch_size", "compression", "request_timeout_ms", "retry_backoff_ms",
   "api_ranges": {"0": [lo, hi]}, "tasks": [[{"p": part, "sleep": s, "ts": ms|None}, ...], ...],
   "faults": {"<ordinal among Produce+Metadata requests>": {"kind","code","delay"}},
   "migrations": [{"at": t, "partition": p, "to": node}], "leaderless": [{"at","partition","for"}],
   "flush_at": k|None, "stop_at": k|None, "seq_start": {...}}
"""
import asyncio
import json
import os
import sys
import traceback

sys.path.insert(0, os.path.join(os.path.dirname(os.path.abspath(__file__)), ".."))
from simkit.loop import install_virtual_time  # noqa: E402

install_virtual_time()

from simkit.cluster import Fault, SimCluster  # noqa: E402
from simkit.loop import SimDeadlock, run_sim  # noqa: E402

import aiokafka.producer.message_accumulator as MA  # noqa: E402
from aiokafka import AIOKafkaProducer  # noqa: E402
from aiokafka.structs import TopicPartition  # noqa: E402

EVENTS = None      # current scenario's client-side event list (shared with cluster.trace order)
CL = None


def _rid(value):
    try:
        return int(bytes(value)[1:].split(b"|")[0])
    except Exception:  # noqa: BLE001
        return -1


def install_wrappers():
    """Observation points, installed from outside (no source hooks)."""
    MB = MA.MessageBatch
    ACC = MA.MessageAccumulator
    o_append, o_done, o_noack, o_fail = MB.append, MB.done, MB.done_noack, MB.failure
    o_pop, o_re = ACC._pop_batch, ACC.reenqueue

    def append(self, key, value, timestamp_ms, *a, **kw):
        fut = o_append(self, key, value, timestamp_ms, *a, **kw)
        if fut is not None and CL is not None:
            CL.ev("c_accept", tp=[self.tp.topic, self.tp.partition], rid=_rid(value),
                  newb=self.record_count == 1, bid=id(self) % 100000)
        return fut

    def done(self, base_offset, timestamp=None, log_start_offset=None, *a, **kw):
        if CL is not None:
            CL.ev("c_ok", tp=[self.tp.topic, self.tp.partition], bid=id(self) % 100000,
                  base_offset=base_offset, ts=timestamp)
        return o_done(self, base_offset, timestamp, log_start_offset, *a, **kw)

    def done_noack(self):
        if CL is not None:
            CL.ev("c_ok", tp=[self.tp.topic, self.tp.partition], bid=id(self) % 100000, base_offset=None, ts=None)
        return o_noack(self)

    def failure(self, exception):
        if CL is not None:
            CL.ev("c_fatal", tp=[self.tp.topic, self.tp.partition], bid=id(self) % 100000,
                  exc=type(exception).__name__)
        return o_fail(self, exception)

    def _pop_batch(self, tp):
        b = o_pop(self, tp)
        if CL is not None:
            seq = None
            try:
                seq = b._builder._builder._base_sequence if hasattr(b._builder, "_builder") else None
            except Exception:  # noqa: BLE001
                seq = None
            CL.ev("c_drain", tp=[tp.topic, tp.partition], bid=id(b) % 100000, n=b.record_count,
                  retry=b.retry_count, seq=seq)
        return b

    def reenqueue(self, batch):
        if CL is not None:
            CL.ev("c_retry", tp=[batch.tp.topic, batch.tp.partition], bid=id(batch) % 100000)
        return o_re(self, batch)

    MB.append, MB.done, MB.done_noack, MB.failure = append, done, done_noack, failure
    ACC._pop_batch, ACC.reenqueue = _pop_batch, reenqueue


def run_scenario(sc):
    global CL
    import random
    rng = random.Random(sc.get("seed", 0))
    out = {"id": sc["id"], "ok": True}

    def mk(loop):
        c = SimCluster(loop, n_brokers=sc.get("brokers", 1), rng=rng)
        c.add_topic("t", sc.get("partitions", 1), ts_type=sc.get("ts_type", 0))
        for k, (lo, hi) in (sc.get("api_ranges") or {}).items():
            c.api_ranges[int(k)] = (lo, hi)
        lat = sc.get("latency", [0.001, 0.004])
        c.latency = lambda node, api: lat[0] + (lat[1] - lat[0]) * rng.random()
        faults = {int(k): v for k, v in (sc.get("faults") or {}).items()}
        counter = {"n": 0}

        windows = sc.get("error_windows") or []

        def fault_for(info):
            if info["api"] == "Produce" and counter.get("on"):
                now = loop.time() - counter.get("t0", 0.0)
                for w in windows:
                    if w["from"] <= now < w["to"] and any(
                            p["partition"] == w["partition"] for t in info["req"]["topics"] for p in t["partitions"]):
                        return Fault("error", w["code"])
            if info["api"] not in ("Produce", "Metadata") or not counter.get("on"):
                return None
            counter["n"] += 1
            f = faults.get(counter["n"])
            if f is None:
                return None
            if info["api"] == "Metadata" and f["kind"] == "error":
                return None
            return Fault(f["kind"], f.get("code", 0), f.get("delay", 0.0))
        c.fault_for = fault_for
        c.fault_counter = counter
        for (tp_p, pid, ls, lc) in sc.get("broker_seq_state") or []:
            c.log("t", tp_p).pstate[pid] = {"epoch": 0, "last_seq": ls, "last_count": lc, "last_offset": -1}
        return c

    async def scenario(loop, net):
        global CL
        CL = net
        if sc.get("obs_cancel"):
            import closeobs
            closeobs.install_cancel_observer(loop)
        for m in sc.get("migrations") or []:
            def mig(m=m):
                net.log("t", m["partition"]).leader = m["to"]
                net.ev("leader_change", partition=m["partition"], to=m["to"])
            loop.call_later(m["at"], mig)
        for m in sc.get("outages") or []:
            def down(m=m):
                for n in (m.get("nodes") or list(net.brokers)):
                    net.set_up(n, False)
                net.ev("outage", nodes=m.get("nodes"))
                if m.get("for") is not None:
                    def up():
                        for n in (m.get("nodes") or list(net.brokers)):
                            net.set_up(n, True)
                    loop.call_later(m["for"], up)
            loop.call_later(m["at"], down)
        for m in sc.get("leaderless") or []:
            def off(m=m):
                lg = net.log("t", m["partition"])
                old = lg.leader
                lg.leader = -1
                net.ev("leader_change", partition=m["partition"], to=-1)

                def on():
                    lg.leader = old
                    net.ev("leader_change", partition=m["partition"], to=old)
                loop.call_later(m["for"], on)
            loop.call_later(m["at"], off)
        kw = dict(bootstrap_servers=net.bootstrap(), linger_ms=sc.get("linger_ms", 0),
                  max_batch_size=sc.get("max_batch_size", 16384),
                  compression_type=sc.get("compression"),
                  request_timeout_ms=sc.get("request_timeout_ms", 2000),
                  retry_backoff_ms=sc.get("retry_backoff_ms", 50),
                  metadata_max_age_ms=sc.get("metadata_max_age_ms", 300000))
        if sc.get("idempotent"):
            kw["enable_idempotence"] = True
        else:
            kw["acks"] = sc.get("acks", 1)
        p = AIOKafkaProducer(**kw)
        await p.start()
        net.fault_counter["on"] = True      # faults are placed on requests after start()
        net.fault_counter["t0"] = loop.time()
        if sc.get("seq_start"):
            for part, v in sc["seq_start"].items():
                p._txn_manager._sequence_numbers[TopicPartition("t", int(part))] = v
        sends = []       # (rid, task, partition, ts, future | exception name)
        accepted_count = {"n": 0}
        ctl = {"flushed": None, "stopped": None}

        async def maybe_ctl():
            accepted_count["n"] += 1
            if sc.get("flush_at") == accepted_count["n"]:
                before = [s for s in sends if not isinstance(s[4], str)]
                t0 = loop.time()
                net.ev("flush_call", pending=sum(1 for s in before if not s[4].done()))
                exc = None
                try:
                    await p.flush()
                except Exception as e:  # noqa: BLE001
                    exc = type(e).__name__
                ctl["flushed"] = {"t": loop.time() - t0, "exc": exc,
                                  "unresolved_after": sum(1 for s in before if not s[4].done())}

        user_cancelled = set()

        async def canceller(fut, k):
            # the application gives up on a returned future (wait_for timeout / cancel) after k loop iterations
            for _ in range(k):
                await asyncio.sleep(0)
            if k >= 50:
                await asyncio.sleep(k / 10000.0)
            fut.cancel()

        async def task(ti, items):
            for it in items:
                if it.get("sleep"):
                    await asyncio.sleep(it["sleep"])
                if "send_batch" in it:
                    # explicit batch API with a user-held builder (left open), optionally appended
                    # to again a few event-loop iterations after send_batch() returned
                    b = p.create_batch()
                    for rid in it["send_batch"]:
                        b.append(key=b"k%d" % rid, value=b"r%d|" % rid, timestamp=None)
                    tp0 = it["p"]
                    try:
                        bfut = await p.send_batch(b, "t", partition=tp0)
                    except Exception as e:  # noqa: BLE001
                        for rid in it["send_batch"]:
                            sends.append((rid, ti, tp0, None, "EXC:" + type(e).__name__, None, None, []))
                        continue
                    for k, rid in enumerate(it["send_batch"]):
                        net.ev("c_accept", tp=["t", tp0], rid=rid, newb=k == 0, bid=-1)
                        sends.append((rid, ti, tp0, None, bfut, b"k%d" % rid, b"r%d|" % rid, [], k))
                    if it.get("cancel_after") is not None:
                        user_cancelled.update(it["send_batch"])
                        asyncio.ensure_future(canceller(bfut, it["cancel_after"]))
                    for _ in range(it.get("yields", 0)):
                        await asyncio.sleep(0)
                    if it.get("late") is not None:
                        md = b.append(key=b"k%d" % it["late"], value=b"r%d|" % it["late"], timestamp=None)
                        net.ev("late_append", rid=it["late"], accepted=md is not None)
                        if md is not None:
                            net.ev("c_accept", tp=["t", tp0], rid=it["late"], newb=False, bid=-1)
                            sends.append((it["late"], ti, tp0, None, bfut, None, None, [], -1))
                            if it.get("cancel_after") is not None:
                                user_cancelled.add(it["late"])
                    await maybe_ctl()
                    continue
                rid = it["rid"]
                val = b"r%d|" % rid + b"x" * it.get("size", 0)
                key = (b"k%d" % rid) if it.get("key", True) else None
                hdrs = [("h", b"%d" % rid)] if it.get("hdr") else []
                if it.get("bad") == "str_value":
                    val = "r%d|" % rid          # no value_serializer: the record builder rejects it (TypeError)
                elif it.get("bad") == "str_key":
                    key = "k%d" % rid
                elif it.get("bad") == "headers":
                    hdrs = [(b"h", b"x")]       # header keys must be str
                try:
                    coro = p.send("t", val, key=key, partition=it["p"], timestamp_ms=it.get("ts"), headers=hdrs)
                    if sc.get("stop_after") is not None:
                        # a send() caught by a concurrent stop() while it waits for metadata never returns
                        # (nothing accepted: outside C02); do not let it hang the run
                        coro = asyncio.wait_for(coro, timeout=600.0)
                    fut = await coro
                    sends.append((rid, ti, it["p"], it.get("ts"), fut, key, val, hdrs))
                    if it.get("cancel_after") is not None:
                        # "Cancelling the returned future will not stop event from being sent" (send() docstring)
                        user_cancelled.add(rid)
                        asyncio.ensure_future(canceller(fut, it["cancel_after"]))
                except Exception as e:  # noqa: BLE001
                    sends.append((rid, ti, it["p"], it.get("ts"), "EXC:" + type(e).__name__, key, val, hdrs))
                await maybe_ctl()

        flushes = []

        async def flusher(delay):
            await asyncio.sleep(delay)
            before = [s for s in sends if not isinstance(s[4], str)]
            npend = sum(1 for s in before if not s[4].done())
            net.ev("flush_call", pending=npend)
            t0 = loop.time()
            exc = None
            try:
                await p.flush()
            except Exception as e:  # noqa: BLE001  (flush() is documented to wait, not to raise a record's error)
                exc = type(e).__name__
            flushes.append({"at": delay, "t": loop.time() - t0, "pending_at_call": npend, "exc": exc,
                            "unresolved_after": sum(1 for s in before if not s[4].done())})

        early = {}

        async def stopper(delay):
            # stop() issued concurrently with the sending tasks (some of them parked on a full batch)
            # the clock starts at the first accepted record: a send() still waiting for the topic's metadata when
            # the client is closed never returns (no record accepted, no future: outside C02; DESIGN.md 9.7)
            while not sends:
                await asyncio.sleep(0.0005)
            await asyncio.sleep(delay)
            t0 = loop.time()
            net.ev("stop_call_concurrent")
            try:
                await asyncio.wait_for(p.stop(), timeout=sc.get("stop_within", 300.0))
                early["t"] = loop.time() - t0
            except asyncio.TimeoutError:
                early["timeout"] = True

        tasks = [asyncio.ensure_future(task(i, items)) for i, items in enumerate(sc["tasks"])]
        tasks += [asyncio.ensure_future(flusher(d)) for d in sc.get("flush_after") or []]
        if sc.get("stop_after") is not None:
            tasks.append(asyncio.ensure_future(stopper(sc["stop_after"])))
        await asyncio.gather(*tasks)
        out["concurrent_stop"] = early or None
        out["flushes"] = flushes
        net.ev("quiet_begin")
        # quiet period: faults have ceased (plan exhausted); wait for resolution
        t_quiet = loop.time()
        futs = [s[4] for s in sends if not isinstance(s[4], str)]
        deadline = sc.get("resolve_within", 120.0)
        if futs and not sc.get("stop_early"):
            await asyncio.wait(futs, timeout=deadline)
        out["resolve_time"] = loop.time() - t_quiet
        t0 = loop.time()
        pre_stop_unresolved = sum(1 for f in futs if not f.done())
        if not p._closed:
            try:
                import closeobs
                out["stop_tasks"] = closeobs.snapshot_producer(p)
                _mark = len(getattr(loop, "_cancel_log", []))
            except Exception as e:  # noqa: BLE001
                out["stop_tasks"] = {"error": repr(e)}
        try:
            try:
                await asyncio.wait_for(p.stop(), timeout=sc.get("stop_within", 300.0))
            finally:
                if out.get("stop_tasks") and "error" not in out["stop_tasks"]:
                    out["stop_tasks"] = closeobs.join_time_states(out["stop_tasks"], loop, _mark, [p._sender, p.client])
            out["stop"] = {"t": loop.time() - t0, "unresolved_before": pre_stop_unresolved,
                           "unresolved_after": sum(1 for f in futs if not f.done())}
        except asyncio.TimeoutError:
            out["stop"] = {"t": None, "timeout": True}
        except Exception as e:  # noqa: BLE001  (stop() must not surface a record's error)
            out["stop"] = {"t": loop.time() - t0, "exc": type(e).__name__, "unresolved_before": pre_stop_unresolved,
                           "unresolved_after": sum(1 for f in futs if not f.done())}
        out["flush"] = ctl["flushed"]
        # C19: what is left after stop(), and later API calls
        for _ in range(5):
            await asyncio.sleep(0)
        await asyncio.sleep(0.001)
        out["pending_tasks"] = sorted({getattr(t.get_coro(), "__qualname__", str(t.get_coro()))
                                       for t in asyncio.all_tasks(loop)
                                       if not t.done() and t is not asyncio.current_task()})
        out["open_transports"] = len(net.open_transports)
        try:
            await asyncio.wait_for(p.send("t", b"late", partition=0), timeout=5.0)
            out["after_stop_send"] = "returned"
        except asyncio.TimeoutError:
            out["after_stop_send"] = "hang"
        except Exception as e:  # noqa: BLE001
            out["after_stop_send"] = type(e).__name__
        # ... and the batch API, on a topic the producer has never used (its metadata is not cached)
        try:
            b_ = p.create_batch()
            b_.append(key=None, value=b"late", timestamp=None)
            await asyncio.wait_for(p.send_batch(b_, "t-never-used", partition=0), timeout=5.0)
            out["after_stop_send_batch"] = "returned"
        except asyncio.TimeoutError:
            out["after_stop_send_batch"] = "hang"
        except Exception as e:  # noqa: BLE001
            out["after_stop_send_batch"] = type(e).__name__
        res = []
        for ent in sends:
            (rid, ti, part, ts, fut, key, val, hdrs) = ent[:8]
            r = {"rid": rid, "task": ti, "p": part, "ts": ts}
            if len(ent) > 8:
                r["batch_index"] = ent[8]      # send_batch(): the future is the batch's (names its first record)
            if rid in user_cancelled:
                r["user_cancelled"] = True
            if isinstance(fut, str):
                r["send_exc"] = fut[4:]
            elif not fut.done():
                r["state"] = "pending"
            elif fut.cancelled():
                r["state"] = "cancelled"
            elif fut.exception() is not None:
                r["state"] = "error"
                r["exc"] = type(fut.exception()).__name__
            else:
                md = fut.result()
                r["state"] = "ok"
                if md is None:
                    r["md"] = None
                else:
                    r["md"] = {"partition": md.partition, "offset": md.offset, "timestamp": md.timestamp,
                               "timestamp_type": md.timestamp_type, "topic": md.topic}
            res.append(r)
        out["sends"] = res
        logs = {}
        for part, lg in net.topics["t"].items():
            recs = []
            for bidx, b in enumerate(lg.batches):
                if b.control:
                    continue
                for r in b.records:
                    recs.append({"offset": r["offset"], "rid": _rid(r["value"]), "ts": r["ts"], "bidx": bidx,
                                 "ts_type": r["ts_type"], "key": (r["key"] or b"").decode("latin1"),
                                 "hdr": [(k, (v or b"").decode("latin1")) for k, v in r["headers"]],
                                 "seq": b.base_seq, "pid": b.pid})
            logs[part] = {"records": recs, "arrivals": [
                {k: (v if not isinstance(v, (bytes, list)) else None) for k, v in a.items() if k != "keys"}
                for a in lg.arrivals], "ts_type": lg.ts_type}
        out["logs"] = logs
        out["trace"] = [e for e in net.trace if e["ev"] in (
            "c_accept", "c_drain", "c_ok", "c_retry", "c_fatal", "arrive", "leader_change", "quiet_begin")
            or (e["ev"] == "request" and e["api"] in ("Produce", "Metadata"))]
        out["n_requests"] = net.req_ordinal
        out["vtime"] = loop.time()
        CL = None
        return out

    try:
        return run_sim(scenario, mk, max_vtime=sc.get("max_vtime", 3600.0), seed=sc.get("seed", 0))
    except SimDeadlock as e:
        CL = None
        return {"id": sc["id"], "ok": False, "error": "SimDeadlock: " + str(e), "stacks": getattr(e, "stacks", [])}
    except Exception as e:  # noqa: BLE001
        CL = None
        return {"id": sc["id"], "ok": False, "error": type(e).__name__ + ": " + str(e),
                "tb": traceback.format_exc()[-1500:]}


def main():
    req = json.load(sys.stdin)
    install_wrappers()
    results = [run_scenario(sc) for sc in req["scenarios"]]
    print(json.dumps({"results": results}, default=lambda o: o.decode("latin1") if isinstance(o, bytes) else str(o)))


if __name__ == "__main__":
    import logging
    logging.disable(logging.CRITICAL)
    main()
