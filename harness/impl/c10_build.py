"""Build the aiokafka record extension from the CURRENT .pyx sources under AddressSanitizer.

usage: c10_build.py <repo> <workdir>
Copies <repo>/aiokafka to <workdir>/aiokafka (without any generated .c/.so), cythonizes and
compiles the four extension modules in place with clang -fsanitize=address.  Runs under the
repo's interpreter (needs Cython).  Prints one JSON line {"ok":..., "seconds":..., "log":...}.
"""
import json
import os
import shutil
import subprocess
import sys
import time

SETUP = r'''
from Cython.Build import cythonize
from setuptools import Extension, setup
CFLAGS = ["-O1", "-g", "-fno-omit-frame-pointer", "-fsanitize=address", "-fsanitize-recover=address",
          "-shared-libasan"]
LDFLAGS = ["-fsanitize=address", "-shared-libasan"]
R = "aiokafka/record/_crecords/"
exts = [
    Extension("aiokafka.record._crecords.legacy_records", [R + "legacy_records.pyx"],
              libraries=["z"], extra_compile_args=CFLAGS, extra_link_args=LDFLAGS),
    Extension("aiokafka.record._crecords.default_records", [R + "crc32c.c", R + "default_records.pyx"],
              libraries=["z"], extra_compile_args=CFLAGS, extra_link_args=LDFLAGS),
    Extension("aiokafka.record._crecords.memory_records", [R + "memory_records.pyx"],
              libraries=["z"], extra_compile_args=CFLAGS, extra_link_args=LDFLAGS),
    Extension("aiokafka.record._crecords.cutil", [R + "crc32c.c", R + "cutil.pyx"],
              libraries=["z"], extra_compile_args=CFLAGS, extra_link_args=LDFLAGS),
]
setup(name="c10asan", ext_modules=cythonize(exts, nthreads=4, compiler_directives={"language_level": 3}),
      script_args=["build_ext", "--inplace", "-j", "4"])
'''


def main():
    repo, work = sys.argv[1], sys.argv[2]
    t0 = time.time()
    dst = os.path.join(work, "aiokafka")
    if os.path.exists(dst):
        shutil.rmtree(dst)

    def ignore(d, names):
        out = []
        for n in names:
            if n == "__pycache__" or n.endswith((".so", ".pyc", ".o")):
                out.append(n)
            elif n.endswith(".c") and n != "crc32c.c" and d.endswith("_crecords"):
                out.append(n)
        return out

    shutil.copytree(os.path.join(repo, "aiokafka"), dst, ignore=ignore)
    # the package __init__ files import the whole client (seconds of start-up under ASan); the
    # runner only needs aiokafka.errors, aiokafka.codec and aiokafka.record._crecords.*
    for init in ("__init__.py", os.path.join("record", "__init__.py")):
        with open(os.path.join(dst, init), "w") as f:
            f.write("# emptied in the C10 scratch copy (start-up time); the anchored modules are untouched\n")
    with open(os.path.join(work, "setup_c10.py"), "w") as f:
        f.write(SETUP)
    env = dict(os.environ)
    env.update({"CC": "clang", "LDSHARED": "clang -shared", "CXX": "clang++"})
    env.pop("CFLAGS", None)
    p = subprocess.run([sys.executable, "setup_c10.py"], cwd=work, env=env, stdout=subprocess.PIPE,
                       stderr=subprocess.STDOUT, text=True, timeout=600)
    sos = [f for f in os.listdir(os.path.join(dst, "record", "_crecords")) if f.endswith(".so")]
    ok = p.returncode == 0 and len(sos) == 4
    print(json.dumps({"ok": ok, "seconds": round(time.time() - t0, 1), "modules": sorted(sos),
                      "log": p.stdout[-3000:] if not ok else ""}))


main()
