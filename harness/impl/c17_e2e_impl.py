"""C17 end to end: keyed / unkeyed records through the real AIOKafkaProducer under the simulator,
with Metadata replies listing partitions in shuffled order and some partitions leaderless."""
import asyncio
import json
import os
import random
import sys

sys.path.insert(0, os.path.join(os.path.dirname(os.path.abspath(__file__)), ".."))
from simkit.loop import install_virtual_time  # noqa: E402

install_virtual_time()
from simkit.cluster import SimCluster  # noqa: E402
from simkit.loop import run_sim  # noqa: E402

from aiokafka import AIOKafkaProducer  # noqa: E402


def run_case(case):
    rng = random.Random(case["seed"])

    def mk(loop):
        c = SimCluster(loop, n_brokers=case["brokers"], rng=rng)
        c.add_topic("t", case["partitions"])
        c.metadata_shuffle = random.Random(case["seed"] + 1)
        c.metadata_partition_errors = {("t", int(q)): code for q, code in (case.get("partition_errors") or {}).items()}
        for p in case.get("leaderless", []):
            c.log("t", p).leader = -1
        return c

    async def scenario(loop, net):
        ser = case.get("ser")
        kw = {}
        if ser == "json":
            # a configured key serializer: what is hashed is the serialized key as it goes on the wire
            kw["key_serializer"] = lambda k: json.dumps(k).encode()
        if case.get("idempotent"):
            kw["enable_idempotence"] = True
        p = AIOKafkaProducer(bootstrap_servers=net.bootstrap(), linger_ms=0, request_timeout_ms=2000,
                             metadata_max_age_ms=200, **kw)
        await p.start()
        out = []
        for i, key in enumerate(case["keys"]):
            val = b"v%d" % i
            fut = await p.send("t", val, key=key if ser else (None if key is None else bytes(key)))
            try:
                md = await asyncio.wait_for(fut, case.get("wait", 5.0))
                out.append(md.partition)
            except Exception as e:  # noqa: BLE001
                out.append("EXC:" + type(e).__name__)
            if i % 7 == 0:
                await asyncio.sleep(0.25)      # let metadata refresh (new shuffled order)
            g = case.get("grow")
            if g and i == g["after"]:
                # the topic gains partitions while the producer runs; after the next metadata refresh the count the
                # partitioner divides by is the new one
                from simkit.cluster import PartitionLog
                cur = len(net.topics["t"])
                for q in range(cur, g["to"]):
                    net.topics["t"][q] = PartitionLog("t", q, q % len(net.brokers))
                await asyncio.sleep(0.7)
        if case.get("idempotent"):
            # the election completes: records queued for a leaderless partition are delivered to THAT partition
            for q in case.get("leaderless", []):
                net.log("t", q).leader = q % case["brokers"]
            await asyncio.sleep(2.0)
        await asyncio.wait_for(p.stop(), 120.0)
        # where each value actually sits
        where = {}
        wire = {}
        for part, lg in net.topics["t"].items():
            for r in lg.records():
                where[r["value"].decode()] = part
                wire[r["value"].decode()] = None if r["key"] is None else list(r["key"])
        return {"reported": out, "landed": [where.get("v%d" % i) for i in range(len(case["keys"]))],
                "wire_keys": [wire.get("v%d" % i) for i in range(len(case["keys"]))]}
    return run_sim(scenario, mk, max_vtime=600.0, seed=case["seed"])


req = json.load(sys.stdin)
import logging
logging.disable(logging.CRITICAL)
print(json.dumps({"out": [run_case(c) for c in req["cases"]]}))
