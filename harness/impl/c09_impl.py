"""Runs under /venv/bin/python with PYTHONPATH=<temporary copy of /repo/aiokafka with the
Cython extension freshly compiled from the current .pyx>.  Drives the pure-Python classes
(_…Py) and the compiled classes side by side, plus the independent reference codec
(c09_ref.py), on the cases of harness/c09.py.  JSON in (stdin), JSON out (last line).
Byte strings travel as hex."""
import json
import os
import sys
import traceback

sys.path.insert(0, os.path.dirname(os.path.abspath(__file__)))
import c09_ref as ref  # noqa: E402

import aiokafka  # noqa: E402
import aiokafka.codec as codecs  # noqa: E402
from aiokafka.record import _crc32c  # noqa: E402
from aiokafka.record import util as rutil  # noqa: E402
from aiokafka.record._crecords import default_records as cy_default  # noqa: E402
from aiokafka.record._crecords import legacy_records as cy_legacy  # noqa: E402
from aiokafka.record._crecords import memory_records as cy_memory  # noqa: E402
from aiokafka.record._crecords import cutil as cy_util  # noqa: E402
from aiokafka.record.default_records import (  # noqa: E402
    _DefaultRecordBatchBuilderPy,
    _DefaultRecordBatchPy,
)
from aiokafka.record.legacy_records import (  # noqa: E402
    _LegacyRecordBatchBuilderPy,
    _LegacyRecordBatchPy,
)
from aiokafka.record.memory_records import _MemoryRecordsPy  # noqa: E402

V2_BUILDER = {"py": _DefaultRecordBatchBuilderPy, "cy": cy_default.DefaultRecordBatchBuilder}
V2_BATCH = {"py": _DefaultRecordBatchPy, "cy": cy_default.DefaultRecordBatch}
L_BUILDER = {"py": _LegacyRecordBatchBuilderPy, "cy": cy_legacy.LegacyRecordBatchBuilder}
L_BATCH = {"py": _LegacyRecordBatchPy, "cy": cy_legacy.LegacyRecordBatch}
MEMREC = {"py": _MemoryRecordsPy, "cy": cy_memory.MemoryRecords}
ENCODERS = {1: codecs.gzip_encode, 2: codecs.snappy_encode, 3: codecs.lz4_encode, 4: codecs.zstd_encode}


def unhex(h):
    return None if h is None else bytes.fromhex(h)


def hx(b):
    return None if b is None else bytes(b).hex()


def rec_args(r):
    """[offset, ts, key_hex, value_hex, [[hk_hex, hv_hex]...]] -> append() arguments"""
    off, ts, k, v, hs = r
    return off, ts, unhex(k), unhex(v), [(bytes.fromhex(hk).decode("utf-8"), unhex(hv)) for hk, hv in hs]


def exn(e):
    return {"exn": type(e).__name__, "msg": str(e)[:200]}


# ------------------------------------------------------------------------------------- v2
def build_v2(name, cfg, recs, codec=None):
    B = V2_BUILDER[name]
    codec = cfg["codec"] if codec is None else codec
    b = B(2, codec, 1 if cfg["txn"] else 0, cfg["pid"], cfg["pepoch"], cfg["bseq"], cfg["batch_size"])
    steps = []
    for r in recs:
        off, ts, k, v, hs = rec_args(r)
        sib = b.size_in_bytes(off, ts, k, v, hs)
        m = b.append(off, ts, k, v, hs)
        steps.append([sib, None if m is None else [m.offset, m.size, m.timestamp], b.size()])
    out = bytes(b.build())
    return {"bytes": out.hex(), "steps": steps, "size_after_build": b.size()}


def decode_v2(name, buf):
    D = V2_BATCH[name]
    try:
        b = D(buf)
        crc_ok = bool(b.validate_crc())
        hdr = [b.base_offset, None, None, b.magic, b.crc, b.attributes, b.last_offset_delta,
               b.first_timestamp, b.max_timestamp, b.producer_id, b.producer_epoch, b.base_sequence, None]
        flags = [b.compression_type, b.timestamp_type, bool(b.is_transactional), bool(b.is_control_batch),
                 b.next_offset]
        recs = []
        for r in b:
            recs.append([r.offset, r.timestamp, r.timestamp_type, hx(r.key), hx(r.value),
                         [[hk.encode("utf-8").hex(), hx(hv)] for hk, hv in r.headers]])
        return {"hdr": hdr, "flags": flags, "crc_ok": crc_ok, "recs": recs}
    except Exception as e:  # noqa: BLE001
        return exn(e)


def ref_recs_v2(recs):
    return [[r[0], r[1], r[2], hx(r[3]), hx(r[4]), [[hx(hk), hx(hv)] for hk, hv in r[5]]] for r in recs]


def case_v2(case):
    cfg, recs, st = case["cfg"], case["recs"], case["stamp"]
    out = {}
    for name in ("py", "cy"):
        try:
            res = build_v2(name, cfg, recs)
            raw = bytes.fromhex(res["bytes"])
            if cfg["codec"]:
                plain = bytes.fromhex(build_v2(name, cfg, recs, codec=0)["bytes"])
                res["plain_region"] = plain[61:].hex()
                # what the codec returns for the record region (its length decides the Python fallback)
                res["alt_payload"] = bytes(ENCODERS[cfg["codec"]](plain[61:])).hex()
            stamped = ref.stamp_v2(raw, st["base"], st["epoch"], st["lat"], st["control"])
            res["stamped"] = stamped.hex()
            res["dec"] = {d: decode_v2(d, stamped) for d in ("py", "cy")}
            if res["dec"]["cy"] == res["dec"]["py"]:
                res["dec"]["cy"] = "=py"            # (keeps the JSON small; expanded by the harness)
            try:
                h, rr = ref.decode_v2(stamped)
                data = h.pop("data")
                rrecs = ref_recs_v2(rr)
                if isinstance(res["dec"]["py"], dict) and res["dec"]["py"].get("recs") == rrecs:
                    rrecs = "=py"
                res["ref"] = {"hdr": h, "recs": rrecs, "data": data.hex()}
                h0, _ = ref.decode_v2(raw)
                h0.pop("data")
                res["ref_raw_hdr"] = h0
            except Exception as e:  # noqa: BLE001
                res["ref"] = exn(e)
            out[name] = res
        except Exception as e:  # noqa: BLE001
            out[name] = exn(e)
            out[name]["tb"] = traceback.format_exc()[-600:]
    return out


# ------------------------------------------------------------------------------------- legacy
def build_legacy(name, cfg, recs, codec=None):
    B = L_BUILDER[name]
    codec = cfg["codec"] if codec is None else codec
    b = B(cfg["magic"], codec, cfg["batch_size"])
    steps = []
    for r in recs:
        off, ts, k, v, _ = rec_args(r)
        sib = b.size_in_bytes(off, ts, k, v)
        m = b.append(off, ts, k, v)
        steps.append([sib, None if m is None else [m.offset, m.crc, m.size, m.timestamp], b.size()])
    out = bytes(b.build())
    return {"bytes": out.hex(), "steps": steps, "size_after_build": b.size()}


def decode_legacy(name, buf, magic):
    D = L_BATCH[name]
    try:
        b = D(buf, magic)
        crc_ok = bool(b.validate_crc())
        recs = [[r.offset, r.timestamp, r.timestamp_type, hx(r.key), hx(r.value), r.checksum,
                 list(r.headers)] for r in b]
        return {"crc_ok": crc_ok, "recs": recs, "next_offset": b.next_offset}
    except Exception as e:  # noqa: BLE001
        return exn(e)


def case_legacy(case):
    cfg, recs, st = case["cfg"], case["recs"], case["stamp"]
    out = {}
    for name in ("py", "cy"):
        try:
            res = build_legacy(name, cfg, recs)
            raw = bytes.fromhex(res["bytes"])
            if cfg["codec"]:
                plain = bytes.fromhex(build_legacy(name, cfg, recs, codec=0)["bytes"])
                res["plain"] = plain.hex()
            msgs, trailing = ref.split(raw) if raw else ([], b"")
            res["trailing"] = len(trailing)
            res["msgs"] = []
            for magic_byte, sl in msgs:
                ent = {"raw": sl.hex(), "magic": magic_byte}
                if cfg["codec"] and st is not None:
                    acc = [r for r, s in zip(recs, res["steps"]) if s[1] is not None]
                    sl2 = ref.stamp_legacy(sl, st["base"] + (acc[-1][0] if acc else 0), st["lat"])
                else:
                    sl2 = sl
                ent["stamped"] = sl2.hex()
                ent["dec"] = {d: decode_legacy(d, sl2, cfg["magic"]) for d in ("py", "cy")}
                try:
                    m, rr = ref.decode_legacy_msg(sl2)
                    ent["ref"] = {"recs": [[r[0], r[1], r[2], hx(r[3]), hx(r[4]), r[5]] for r in rr],
                                  "crc_ok": m["crc_ok"], "inner_crc_ok": m.get("inner_crc_ok", True),
                                  "data": hx(m.get("data")), "offset": m["offset"], "attrs": m["attrs"],
                                  "length_ok": m["length"] == len(sl2) - 12}
                except Exception as e:  # noqa: BLE001
                    ent["ref"] = exn(e)
                res["msgs"].append(ent)
            out[name] = res
        except Exception as e:  # noqa: BLE001
            out[name] = exn(e)
            out[name]["tb"] = traceback.format_exc()[-600:]
    return out


# ------------------------------------------------------------------------------------- splitter
def make_batch(spec):
    by = spec["by"]
    if spec["kind"] == "v2":
        if by == "ref":
            recs = [(r[0], r[1], unhex(r[2]), unhex(r[3]), [(bytes.fromhex(a), unhex(b)) for a, b in r[4]])
                    for r in spec["recs"]]
            raw = ref.encode_v2(recs, txn=spec["cfg"]["txn"], pid=spec["cfg"]["pid"],
                                pepoch=spec["cfg"]["pepoch"], bseq=spec["cfg"]["bseq"])
        else:
            raw = bytes.fromhex(build_v2(by, spec["cfg"], spec["recs"])["bytes"])
        st = spec.get("stamp")
        if st:
            raw = ref.stamp_v2(raw, st["base"], st["epoch"], st["lat"], st["control"])
        return raw
    if by == "ref":
        return ref.encode_legacy(spec["cfg"]["magic"],
                                 [(r[0], r[1], unhex(r[2]), unhex(r[3])) for r in spec["recs"]])
    raw = bytes.fromhex(build_legacy(by, spec["cfg"], spec["recs"])["bytes"])
    if spec["cfg"]["codec"]:
        # a broker gives the wrapper the offset of its last inner message
        st = spec.get("stamp") or {"base": 0, "lat": None}
        raw = ref.stamp_legacy(raw, st["base"] + spec["recs"][-1][0], st["lat"])
    return raw


def run_memrec(name, buf):
    MR = MEMREC[name]
    out = []
    try:
        mr = MR(buf)
        n = 0
        while mr.has_next():
            b = mr.next_batch()
            n += 1
            if n > 10000:
                raise RuntimeError("runaway iteration")
            kind = "default" if "Default" in type(b).__name__ else "legacy"
            try:
                if kind == "default":
                    recs = [[r.offset, r.timestamp, r.timestamp_type, hx(r.key), hx(r.value),
                             [[hk.encode("utf-8").hex(), hx(hv)] for hk, hv in r.headers]] for r in b]
                    magic = b.magic
                else:
                    recs = [[r.offset, r.timestamp, r.timestamp_type, hx(r.key), hx(r.value), r.checksum]
                            for r in b]
                    magic = None
                out.append({"kind": kind, "magic": magic, "recs": recs})
            except Exception as e:  # noqa: BLE001
                out.append({"kind": kind, "decode_exn": type(e).__name__, "msg": str(e)[:120]})
        last = mr.next_batch()
        return {"batches": out, "end": "none" if last is None else "extra", "size": mr.size_in_bytes()}
    except Exception as e:  # noqa: BLE001
        return {"batches": out, "end": "exn:" + type(e).__name__, "msg": str(e)[:120]}


def case_split(case):
    try:
        if "buffer" in case:
            buf = bytes.fromhex(case["buffer"])
            bounds = case.get("bounds", [])
        else:
            parts = [make_batch(s) for s in case["batches"]]
            buf = b"".join(parts)
            bounds = [len(p) for p in parts]
            tail = case.get("tail")
            if tail:
                t = make_batch(tail["batch"])
                buf += t[: max(0, min(len(t) - 1, tail["cut"] if tail["cut"] >= 0 else len(t) + tail["cut"]))]
        res = {"buffer": buf.hex(), "bounds": bounds}
        for name in ("py", "cy"):
            res[name] = run_memrec(name, buf)
        try:
            sl, trailing = ref.split(buf)
            rb = []
            for magic, s in sl:
                if magic >= 2:
                    _, rr = ref.decode_v2(s)
                    rb.append({"kind": "default", "magic": magic, "len": len(s), "recs": ref_recs_v2(rr)})
                else:
                    _, rr = ref.decode_legacy_msg(s)
                    rb.append({"kind": "legacy", "magic": magic, "len": len(s),
                               "recs": [[r[0], r[1], r[2], hx(r[3]), hx(r[4]), r[5]] for r in rr]})
            res["ref"] = {"batches": rb, "trailing": len(trailing)}
        except Exception as e:  # noqa: BLE001
            res["ref"] = exn(e)
        return res
    except Exception as e:  # noqa: BLE001
        r = exn(e)
        r["tb"] = traceback.format_exc()[-600:]
        return r


# ------------------------------------------------------------------------------------- varint / crc
def case_varints(values, decs):
    out = {"enc": [], "dec": []}
    for v in values:
        ent = {}
        try:
            buf = []
            ret = rutil.encode_varint_py(v, buf.append)
            ent["py"] = [bytes(buf).hex(), ret, rutil.size_of_varint_py(v)]
        except Exception as e:  # noqa: BLE001
            ent["py"] = exn(e)
        try:
            buf = []
            cy_util.encode_varint_cython(v, buf.append)
            ent["cy"] = [bytes(buf).hex(), cy_util.size_of_varint_cython(v)]
        except Exception as e:  # noqa: BLE001
            ent["cy"] = exn(e)
        ent["ref"] = ref.varint(v).hex()
        out["enc"].append(ent)
    for h, pos in decs:
        b = bytearray.fromhex(h)
        ent = {}
        for name, f in (("py", rutil.decode_varint_py), ("cy", cy_util.decode_varint_cython)):
            try:
                ent[name] = list(f(b, pos))
            except Exception as e:  # noqa: BLE001
                ent[name] = exn(e)
        try:
            ent["ref"] = list(ref.read_varint(bytes(b), pos))
        except Exception as e:  # noqa: BLE001
            ent["ref"] = exn(e)
        out["dec"].append(ent)
    return out


def case_crc(datas):
    import zlib
    out = []
    for h in datas:
        b = bytes.fromhex(h)
        out.append([_crc32c.crc(b), cy_util.crc32c_cython(b), rutil.calc_crc32c_py(b), zlib.crc32(b) & 0xFFFFFFFF,
                    ref.crc32c(b)])
    return out


def main():
    req = json.load(sys.stdin)
    import aiokafka.record.default_records as _pub
    from aiokafka.util import NO_EXTENSIONS
    out = {"where": {"aiokafka": os.path.dirname(aiokafka.__file__),
                     "ext": cy_default.__file__, "no_extensions": bool(NO_EXTENSIONS),
                     "python_side_varint": rutil.encode_varint.__name__,
                     "python_side_batch": _pub.DefaultRecordBatch.__module__ + "." + _pub.DefaultRecordBatch.__name__},
           "codecs": {"gzip": codecs.has_gzip(), "snappy": codecs.has_snappy(), "lz4": codecs.has_lz4(),
                      "zstd": codecs.has_zstd()}}
    if "v2" in req:
        out["v2"] = [case_v2(c) for c in req["v2"]]
    if "legacy" in req:
        out["legacy"] = [case_legacy(c) for c in req["legacy"]]
    if "split" in req:
        out["split"] = [case_split(c) for c in req["split"]]
    if "varint" in req:
        out["varint"] = case_varints(req["varint"]["values"], req["varint"]["decs"])
    if "crc" in req:
        out["crc"] = case_crc(req["crc"])
        out["crc_table"] = list(_crc32c.CRC_TABLE)
    print(json.dumps(out))


main()
