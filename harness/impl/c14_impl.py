"""Runs under /venv/bin/python with PYTHONPATH=/repo: the real assignors on generated inputs.

The sticky executor is observed from outside (no source hooks): its primitives are wrapped
for the duration of one assign() call and the operations are appended to a log:
  init      executor.current_assignment / previous_assignment right after __init__
  assigns   (partition, consumer) for every _assign_partition that placed the partition
  reassigns (trigger partition, new consumer, partition actually moved) for every
            _reassign_partition_to_consumer -> _move_partition
  reverted  whether balance() restored its prebalance copy (from the two _get_balance_score
            values it compares)
  final     executor.current_assignment when balance() returns
User data always goes through the real StickyAssignorUserDataV1 encoding
(StickyPartitionAssignor._metadata) and the member metadata through
ConsumerProtocolMemberMetadata.encode()/decode()."""
import json
import signal
import logging
import multiprocessing
import os
import sys

sys.path.insert(0, os.path.dirname(os.path.abspath(__file__)))
logging.disable(logging.CRITICAL)

from aiokafka.coordinator.assignors.range import RangePartitionAssignor  # noqa: E402
from aiokafka.coordinator.assignors.roundrobin import RoundRobinPartitionAssignor  # noqa: E402
from aiokafka.coordinator.assignors.sticky import sticky_assignor as SA  # noqa: E402
from aiokafka.coordinator.assignors.sticky.sticky_assignor import StickyPartitionAssignor  # noqa: E402
from aiokafka.coordinator.protocol import ConsumerProtocolMemberMetadata  # noqa: E402
from aiokafka.structs import TopicPartition  # noqa: E402

import c14_space as S  # noqa: E402


class StubCluster:
    """What the assignors use of ClusterMetadata: topics() and partitions_for_topic()."""

    def __init__(self, ppt):
        self.ppt = ppt

    def topics(self, exclude_internal_topics=True):
        return {S.tname(i) for i, n in enumerate(self.ppt) if n is not None}

    def partitions_for_topic(self, topic):
        i = S.tid(topic)
        if i >= len(self.ppt) or self.ppt[i] is None:
            return None
        return set(range(self.ppt[i]))


def make_cluster(case):
    """the stub, or - when the case flags internal topics - the real ClusterMetadata filled from a Metadata reply
    (a member may subscribe to an internal topic such as __consumer_offsets by name: topics() leaves those out
    by default, partitions_for_topic() knows them)"""
    if not case.get("internal"):
        return StubCluster(case["ppt"])
    from aiokafka.cluster import ClusterMetadata
    from aiokafka.protocol.metadata import MetadataResponse_v1
    c = ClusterMetadata()
    topics = []
    for i, n in enumerate(case["ppt"]):
        if n is None:
            continue
        topics.append((0, S.tname(i), i in case["internal"], [(0, p, 0, [0], [0]) for p in range(n)]))
    c.update_metadata(MetadataResponse_v1([(0, "h", 9092, None)], 0, topics))
    return c


def conv_out(case, out):
    """{member: ConsumerProtocolMemberAssignment} -> [[id, [[t, [p..]], ..]], ..] in the order of
    the returned dict."""
    return [[S.mid(m), [[S.tid(t), list(ps)] for t, ps in a.assignment]] for m, a in out.items()]


def plain_metadata(case):
    mm = {}
    for m, subs in case["members"]:
        md = ConsumerProtocolMemberMetadata(0, [S.tname(t) for t in subs], b"")
        mm[S.mname(m)] = md
    return mm


def sticky_metadata(case):
    mm = {}
    claims = case.get("claims") or [None] * len(case["members"])
    for (m, subs), cl in zip(case["members"], claims):
        topics = [S.tname(t) for t in subs]
        if cl is None:
            md = StickyPartitionAssignor._metadata(topics, None)
        else:
            gen, parts = cl
            md = StickyPartitionAssignor._metadata(
                topics, [TopicPartition(S.tname(t), p) for t, p in parts], gen)
        # members of other client libraries / versions announce a newer subscription-metadata version
        # (the user-data layout is the sticky assignor's own and does not depend on it)
        ver = (case.get("mdver") or {}).get(str(m), 0)
        if ver:
            md = ConsumerProtocolMemberMetadata(ver, md.subscription, md.user_data)
        # over the wire and back
        md = ConsumerProtocolMemberMetadata.decode(md.encode())
        mm[S.mname(m)] = md
    return mm


# ----------------------------------------------------------------------------- sticky op log
LOG = None
_ORIG = {}


def _install():
    E = SA.StickyAssignmentExecutor
    if _ORIG:
        return
    _ORIG["init"] = E.__init__
    _ORIG["assign"] = E._assign_partition
    _ORIG["reassign_to"] = E._reassign_partition_to_consumer
    _ORIG["move"] = E._move_partition
    _ORIG["score"] = E.__dict__["_get_balance_score"]
    _ORIG["balance"] = E.balance

    def init(self, cluster, members):
        _ORIG["init"](self, cluster, members)
        if LOG is not None:
            LOG["init"] = [[S.mid(c), S.tid(tp.topic), tp.partition]
                           for c, ps in self.current_assignment.items() for tp in ps]
            LOG["prev"] = [[S.tid(tp.topic), tp.partition, S.mid(cg.consumer)]
                           for tp, cg in self.previous_assignment.items()]

    def assign(self, partition):
        _ORIG["assign"](self, partition)
        if LOG is not None:
            c = self.current_partition_consumer.get(partition)
            if c is not None:
                LOG["assigns"].append([S.tid(partition.topic), partition.partition, S.mid(c)])

    def reassign_to(self, partition, new_consumer):
        if LOG is not None:
            LOG["pending"] = (partition, new_consumer)
        _ORIG["reassign_to"](self, partition, new_consumer)

    def move(self, partition, new_consumer):
        if LOG is not None:
            trig = LOG.pop("pending", None)
            x = trig[0] if trig else partition
            LOG["reassigns"].append([S.tid(x.topic), x.partition, S.mid(new_consumer),
                                     S.tid(partition.topic), partition.partition])
        _ORIG["move"](self, partition, new_consumer)

    orig_score = _ORIG["score"].__func__

    def score(assignment):
        v = orig_score(assignment)
        if LOG is not None:
            LOG["scores"].append(v)
        return v

    def balance(self):
        _ORIG["balance"](self)
        if LOG is not None:
            LOG["final"] = [[S.mid(c), S.tid(tp.topic), tp.partition]
                            for c, ps in self.current_assignment.items() for tp in ps]

    _ORIG["populate"] = E._populate_sorted_partitions

    def populate(self):
        before = None
        if LOG is not None and not self.is_fresh_assignment and self._are_subscriptions_identical():
            # the members' assignable partitions, as the round-robin branch sees them
            before = {c: [tp for tp in ps if tp in self.partition_to_all_potential_consumers]
                      for c, ps in self.current_assignment.items()}
        _ORIG["populate"](self)
        if before is not None:
            names = list(before)
            owner = {tp: i for i, c in enumerate(names) for tp in before[c]}
            n = sum(len(v) for v in before.values())
            LOG["order"] = {"counts": [len(before[c]) for c in names],
                            "owners": [owner.get(tp, -1) for tp in self.sorted_partitions[:n]],
                            "members": [S.mid(c) for c in names],
                            "listed": len(self.sorted_partitions)}

    E._populate_sorted_partitions = populate
    E.__init__ = init
    E._assign_partition = assign
    E._reassign_partition_to_consumer = reassign_to
    E._move_partition = move
    E._get_balance_score = staticmethod(score)
    E.balance = balance


class NonTermination(Exception):
    pass


def _timeout(signum, frame):
    raise NonTermination("assign() exceeded its CPU-time limit")


def run_sticky(case, with_log=True, limit=20.0):
    global LOG
    _install()
    LOG = {"assigns": [], "reassigns": [], "scores": []} if with_log else None
    try:
        # CPU-time watchdog: assign() is a terminating function of its input (milliseconds on these sizes); a case
        # still running after 20 s of CPU is reported as non-termination with the case as replay
        signal.signal(signal.SIGVTALRM, _timeout)
        signal.setitimer(signal.ITIMER_VIRTUAL, limit)
        try:
            out = StickyPartitionAssignor.assign(make_cluster(case), sticky_metadata(case))
        finally:
            signal.setitimer(signal.ITIMER_VIRTUAL, 0)
        res = {"out": conv_out(case, out)}
        if with_log:
            sc = LOG["scores"]
            if "order" in LOG:
                res["order"] = LOG["order"]
            res.update(init=LOG["init"], prev=LOG["prev"], assigns=LOG["assigns"],
                       reassigns=LOG["reassigns"], final=LOG["final"],
                       reverted=int(len(sc) == 2 and sc[0] >= sc[1]), nscores=len(sc))
        return res
    except NonTermination:
        # On a heavily loaded (virtualised) machine the CPU-time timer has fired on inputs that take a millisecond when
        # run again: the case is decided by a second run with a limit of 60 s before it is reported
        if limit < 50.0:
            LOG = None
            return run_sticky(case, with_log, limit=60.0)
        res = {"exc": "NonTermination: assign() still running after 20 s and, run again, after 60 s of CPU time"}
        return res
    except Exception as e:  # noqa: BLE001
        res = {"exc": f"{type(e).__name__}: {e!r}"[:300]}
        if with_log and LOG:
            res["partial_log"] = {k: LOG.get(k) for k in ("init", "prev", "assigns", "reassigns")}
        return res
    finally:
        LOG = None


def run_plain(A, case):
    try:
        return conv_out(case, A.assign(make_cluster(case), plain_metadata(case)))
    except Exception as e:  # noqa: BLE001
        return {"exc": f"{type(e).__name__}: {e!r}"[:300]}


def run_case(case, assignors):
    r = {}
    if "range" in assignors:
        r["range"] = run_plain(RangePartitionAssignor, case)
    if "roundrobin" in assignors:
        r["roundrobin"] = run_plain(RoundRobinPartitionAssignor, case)
    if "sticky" in assignors:
        r["sticky"] = run_sticky(case)
    return r


def claims_from(out_conv, members, gen):
    """What each member would ship in its next JoinGroup: the partitions of its last
    assignment (ConsumerProtocolMemberAssignment.partitions() order), generation gen."""
    byid = {m: a for m, a in out_conv}
    res = []
    for m, _ in members:
        if m in byid:
            res.append([gen, [[t, p] for t, ps in byid[m] for p in ps]])
        else:
            res.append(None)
    return res


def run_chain(chain):
    """first: a case (may carry claims); steps: later rounds {ppt, members}; every later round
    claims what the previous real round returned, with generation = round number."""
    rounds = []
    wl = bool(chain.get("log", 1))
    case = dict(chain["first"])
    if chain.get("mdver"):
        case["mdver"] = chain["mdver"]
    res = run_sticky(case, with_log=wl)
    rounds.append({"case": case, "sticky": res})
    gen = chain.get("gen0", 1)
    last = {}          # member -> the claim it would still ship if it missed the following generations
    for st in chain["steps"]:
        if "exc" in res:
            break
        for m, a in res["out"]:
            last[m] = [gen, [[t, p] for t, ps in a for p in ps]]
        nxt = {"ppt": st["ppt"], "members": st["members"]}
        if chain.get("mdver"):
            nxt["mdver"] = chain["mdver"]
        nxt["claims"] = claims_from(res["out"], st["members"], gen)
        for idx, (m, _s) in enumerate(st["members"]):
            if nxt["claims"][idx] is None and m in (st.get("returning") or []) and m in last:
                nxt["claims"][idx] = last[m]
        if st.get("stale"):
            # members listed here keep shipping an older claim (they missed a generation)
            for idx, cl in st["stale"]:
                nxt["claims"][idx] = cl
        res = run_sticky(nxt, with_log=wl)
        rounds.append({"case": nxt, "sticky": res})
        gen += 1
    return rounds


def run_pairs(case, log_every, counter):
    """first round (no user data) + every second round of C15's quantifier, the previous
    assignment shipped through the real user-data encoding with generation 1"""
    r1 = run_sticky(case, with_log=False)
    seconds = []
    if "exc" not in r1:
        for kind, members2, arg in S.second_rounds(case):
            c2 = {"ppt": case["ppt"], "members": members2,
                  "claims": claims_from(r1["out"], members2, 1)}
            counter[0] += 1
            seconds.append(run_sticky(c2, with_log=(counter[0] % log_every == 0)))
    return {"first": r1, "second": seconds}


def do_job(job):
    kind = job["kind"]
    if kind == "pairs":
        out = []
        counter = [job.get("offset", 0)]
        for (T, M, li) in job["blocks"]:
            for case in S.block_cases(T, M, li):
                out.append(run_pairs(case, job.get("log_every", 50), counter))
        return out
    if kind == "blocks":
        out = []
        for (T, M, li) in job["blocks"]:
            for case in S.block_cases(T, M, li):
                out.append(run_case(case, job["assignors"]))
        return out
    if kind == "cases":
        return [run_case(c, job["assignors"]) for c in job["cases"]]
    if kind == "chains":
        return [run_chain(c) for c in job["chains"]]
    raise ValueError(kind)


def main():
    req = json.load(sys.stdin)
    jobs = req["jobs"]
    procs = int(req.get("procs", 1))
    if procs > 1 and len(jobs) > 1:
        with multiprocessing.Pool(procs) as pool:
            res = pool.map(do_job, jobs, chunksize=1)
    else:
        res = [do_job(j) for j in jobs]
    sys.stdout.write(json.dumps(res, separators=(",", ":")))
    sys.stdout.write("\n")


if __name__ == "__main__":
    main()
