"""Runs group-consumer scenarios under the simulator (C04, C05, C06, C19).
stdin {"scenarios": [...]}, stdout last line {"results": [...]}.  See harness/conssim.py for
the scenario format."""
import asyncio
import json
import os
import sys
import traceback

sys.path.insert(0, os.path.join(os.path.dirname(os.path.abspath(__file__)), ".."))
from simkit.loop import install_virtual_time  # noqa: E402

install_virtual_time()

from simkit import refcodec  # noqa: E402
from simkit.cluster import Fault, SimCluster  # noqa: E402
from simkit.loop import SimDeadlock, run_sim  # noqa: E402

from aiokafka import AIOKafkaConsumer, ConsumerRebalanceListener  # noqa: E402
from aiokafka.structs import OffsetAndMetadata, TopicPartition  # noqa: E402
from aiokafka.coordinator.assignors.range import RangePartitionAssignor  # noqa: E402
from aiokafka.coordinator.assignors.roundrobin import RoundRobinPartitionAssignor  # noqa: E402
from aiokafka.coordinator.assignors.sticky.sticky_assignor import StickyPartitionAssignor  # noqa: E402
from aiokafka.coordinator.protocol import ConsumerProtocolMemberAssignment  # noqa: E402
from aiokafka.structs import TopicPartition  # noqa: E402

ASSIGNORS = {"range": RangePartitionAssignor, "roundrobin": RoundRobinPartitionAssignor,
             "sticky": StickyPartitionAssignor}


def _rid(value):
    try:
        return int(bytes(value)[1:].split(b"|")[0])
    except Exception:  # noqa: BLE001
        return -1


def decode_assignment(b):
    if not b:
        return []
    a = ConsumerProtocolMemberAssignment.decode(b)
    return sorted([t, p] for t, ps in a.assignment for p in ps)


class Listener(ConsumerRebalanceListener):
    def __init__(self, net, name, holder, delay):
        self.net, self.name, self.holder, self.delay = net, name, holder, delay

    def _gen(self):
        c = self.holder.get("c")
        try:
            return c._coordinator.generation, c._coordinator.member_id
        except Exception:  # noqa: BLE001
            return None, None

    async def on_partitions_revoked(self, revoked):
        g, m = self._gen()
        self.net.ev("cb_revoked_begin", c=self.name, tps=sorted([tp.topic, tp.partition] for tp in revoked),
                    gen=g, member=m)
        if self.delay:
            await asyncio.sleep(self.delay)
        self.net.ev("cb_revoked_end", c=self.name, gen=g, member=m)

    async def on_partitions_assigned(self, assigned):
        g, m = self._gen()
        self.net.ev("cb_assigned_begin", c=self.name, tps=sorted([tp.topic, tp.partition] for tp in assigned),
                    gen=g, member=m)
        if self.delay:
            await asyncio.sleep(self.delay)
        c = self.holder.get("c")
        snap = sorted([tp.topic, tp.partition] for tp in c.assignment()) if c else None
        self.net.ev("cb_assigned_end", c=self.name, gen=g, member=m, assignment=snap)


class PlainListener(Listener):
    """the documented alternative shapes of a listener ("a coroutine or function"): plain functions, one of
    which hands back a coroutine that the library has to await"""

    def __init__(self, net, name, holder, delay, kind):
        super().__init__(net, name, holder, delay)
        self.kind = kind

    def on_partitions_revoked(self, revoked):
        if self.kind == "returns_coroutine":
            return Listener.on_partitions_revoked(self, revoked)      # a coroutine object from a plain callable
        g, m = self._gen()                                           # "sync": everything happens synchronously
        self.net.ev("cb_revoked_begin", c=self.name, tps=sorted([tp.topic, tp.partition] for tp in revoked),
                    gen=g, member=m)
        self.net.ev("cb_revoked_end", c=self.name, gen=g, member=m)

    def on_partitions_assigned(self, assigned):
        if self.kind == "returns_coroutine":
            return Listener.on_partitions_assigned(self, assigned)
        g, m = self._gen()
        self.net.ev("cb_assigned_begin", c=self.name, tps=sorted([tp.topic, tp.partition] for tp in assigned),
                    gen=g, member=m)
        c = self.holder.get("c")
        snap = sorted([tp.topic, tp.partition] for tp in c.assignment()) if c else None
        self.net.ev("cb_assigned_end", c=self.name, gen=g, member=m, assignment=snap)


def make_listener(net, name, holder, cfg):
    kind = cfg.get("listener_kind", "async")
    if kind == "async":
        return Listener(net, name, holder, cfg.get("cb_delay", 0))
    return PlainListener(net, name, holder, cfg.get("cb_delay", 0), kind)


# ---------------------------------------------------------------------------------------------------
# Member-side probe (C06 convergence correspondence; active only for scenarios with "probe": true).
# Installed from outside on the GroupCoordinator class: the wrappers call the original code unchanged and
# only append events to the simulator trace:
#   m_send / m_reply / m_err / m_cancel   around GroupCoordinator._send_req (JoinGroup, SyncGroup, Heartbeat,
#                                         OffsetCommit), m_ck on every change of coordinator_id,
#   p_req / p_rep                         a group request reaches the broker / its reply leaves the broker,
#   probe_snapshot                        every probe_period seconds: the coordinator-relevant fields of every
#                                         consumer (read from the real objects) and the simulated group's state.
PROBE = {"net": None, "installed": False}
PROBE_APIS = ("JoinGroupRequest", "SyncGroupRequest", "HeartbeatRequest", "OffsetCommitRequest")


def _api_of(request):
    n = type(request).__name__
    for a in ("JoinGroup", "SyncGroup", "Heartbeat", "OffsetCommit", "LeaveGroup", "OffsetFetch"):
        if n.startswith(a):
            return a
    return n


def install_probe():
    if PROBE["installed"]:
        return
    PROBE["installed"] = True
    from aiokafka.consumer.group_coordinator import GroupCoordinator as GC

    def name_of(self):
        try:
            return self._client._client_id
        except Exception:  # noqa: BLE001
            return None

    def get_cid(self):
        return self.__dict__.get("_probe_coordinator_id")

    def set_cid(self, v):
        old = self.__dict__.get("_probe_coordinator_id")
        self.__dict__["_probe_coordinator_id"] = v
        net = PROBE["net"]
        if net is not None and old != v:
            net.ev("m_ck", c=name_of(self), node=v)
    GC.coordinator_id = property(get_cid, set_cid)

    orig_send = GC._send_req

    async def send_req(self, request):
        net = PROBE["net"]
        api = _api_of(request)
        if net is None or api not in ("JoinGroup", "SyncGroup", "Heartbeat", "OffsetCommit"):
            return await orig_send(self, request)
        c = name_of(self)
        st = self.__dict__.setdefault("_probe_state", {"main": "Idle", "seq": 0, "inflight": {}})
        st["seq"] += 1
        seq = st["seq"]
        mid = getattr(request, "member_id", None)
        if api == "OffsetCommit":
            mid = getattr(request, "consumer_id", None)
        gen = getattr(request, "generation_id", None)
        if api == "OffsetCommit":
            gen = getattr(request, "consumer_group_generation_id", None)
        st["inflight"][api] = {"seq": seq, "mid": mid, "gen": gen, "t": net.loop.time()}
        if api == "JoinGroup":
            st["main"] = "JoinSent"
        elif api == "SyncGroup":
            st["main"] = "SyncSent"
        net.ev("m_send", c=c, api=api, member=mid, gen=gen, seq=seq, known=self.coordinator_id is not None)
        try:
            resp = await orig_send(self, request)
        except asyncio.CancelledError:
            st["inflight"].pop(api, None)
            net.ev("m_cancel", c=c, api=api, seq=seq)
            raise
        except BaseException as e:  # noqa: BLE001
            st["inflight"].pop(api, None)
            if api in ("JoinGroup", "SyncGroup"):
                st["main"] = "Idle"
            net.ev("m_err", c=c, api=api, seq=seq, exc=type(e).__name__)
            raise
        st["inflight"].pop(api, None)
        if api == "OffsetCommit":
            codes = sorted({ec for _t, ps in resp.topics for _p, ec in ps})
            code = next((x for x in codes if x), 0)
            net.ev("m_reply", c=c, api=api, seq=seq, code=code, codes=codes)
        else:
            code = resp.error_code
            if api == "JoinGroup":
                st["main"] = "Joined" if code == 0 else "Idle"
                net.ev("m_reply", c=c, api=api, seq=seq, code=code, gen=resp.generation_id, member=resp.member_id,
                       leader=resp.leader_id)
            else:
                if api == "SyncGroup":
                    # "Assigned": SyncGroup succeeded, _on_join_complete running, heartbeat task not yet started
                    st["main"] = "Assigned" if code == 0 else "Idle"
                net.ev("m_reply", c=c, api=api, seq=seq, code=code)
        return resp
    GC._send_req = send_req

    for meth in ("coordinator_dead", "request_rejoin", "reset_generation", "_start_heartbeat_task"):
        def mk(meth):
            orig = getattr(GC, meth)

            def w(self, *a, **k):
                net = PROBE["net"]
                if net is not None:
                    net.ev("m_call", c=name_of(self), fn=meth)
                    if meth == "_start_heartbeat_task":
                        st = self.__dict__.get("_probe_state")
                        if st and st["main"] == "Assigned":
                            st["main"] = "Idle"
                return orig(self, *a, **k)
            return w
        setattr(GC, meth, mk(meth))


def probe_member_snapshot(name, consumer):
    co = getattr(consumer, "_coordinator", None)
    if co is None or not hasattr(co, "_rejoin_needed_fut"):
        return {"name": name, "group": False}
    st = co.__dict__.get("_probe_state") or {"main": "Idle", "inflight": {}}
    sub = co._subscription.subscription
    hb = co._heartbeat_task
    return {"name": name, "group": True, "member": co.member_id, "gen": co.generation,
            "node": co.coordinator_id, "rejoin": co._rejoin_needed_fut.done(),
            "no_assignment": sub is None or sub.assignment is None,
            "hb": hb is not None and not hb.done(), "hb_slot": hb is not None,
            "closing": co._closing.done(), "coord_task_done": co._coordination_task.done(),
            "main": st["main"], "inflight": {k: dict(v) for k, v in st["inflight"].items()}}


def probe_group_snapshot(net, gid):
    g = net.gc.groups.get(gid)
    if g is None:
        return None
    return {"state": g.state, "generation": g.generation, "leader": g.leader, "pending": sorted(g.pending_ids),
            "coordinator": net.group_coordinator_node, "loading": bool(net.gc.loading),
            "members": {mid: {"join": m.get("join_cb") is not None, "sync": m.get("sync_cb") is not None}
                        for mid, m in g.members.items()}}


API_ERROR_CODES = {
    "FindCoordinator": [15],
    "JoinGroup": [14, 15, 16, 25],
    "SyncGroup": [15, 16, 22, 25, 27],
    "Heartbeat": [15, 16, 22, 25, 27],
    "OffsetCommit": [14, 15, 16, 22, 25, 27],
    "OffsetFetch": [14, 15, 16],
    "LeaveGroup": [15, 16, 25],
}


def run_scenario(sc):
    import random
    rng = random.Random(sc.get("seed", 0))
    out = {"id": sc["id"], "ok": True}

    def mk(loop):
        c = SimCluster(loop, n_brokers=sc.get("brokers", 1), rng=rng)
        for t, n in sc["topics"].items():
            c.add_topic(t, n)
        for k, (lo, hi) in (sc.get("api_ranges") or {}).items():
            c.api_ranges[int(k)] = (lo, hi)
        lat = sc.get("latency", [0.001, 0.004])
        api_lat = sc.get("api_latency") or {}       # e.g. {"OffsetFetch": 0.2}: one slow kind of request
        c.latency = lambda node, api: api_lat[api] if api in api_lat else lat[0] + (lat[1] - lat[0]) * rng.random()
        c.group_coordinator_node = sc.get("coordinator", 0)
        rid = [0]
        for t, parts in (sc.get("preload") or {}).items():
            for p, n in parts.items():
                done = 0
                while done < n:
                    k = min(n - done, rng.choice([1, 2, 3]))
                    recs = []
                    for i in range(k):
                        recs.append((i, 1000 + rid[0], b"k", b"r%d|" % rid[0], []))
                        rid[0] += 1
                    c.append_raw(t, int(p), lambda base, recs=recs: refcodec.build_v2(base, recs))
                    done += k
        c.rid = rid
        fp = sc.get("faults") or {}
        apis = set(fp.get("apis") or [])
        plan = {int(k): v for k, v in (fp.get("plan") or {}).items()}
        counter = {"n": 0, "on": False}

        api_faults = sc.get("api_faults") or []      # [{"client", "api", "nth", "kind", "code"?, "delay"?}]
        per_client = {}

        def fault_for(info):
            if api_faults and counter["on"]:
                key = (info.get("client"), info["api"])
                per_client[key] = per_client.get(key, 0) + 1
                for af in api_faults:
                    if (af["client"], af["api"]) == key and af["nth"] == per_client[key]:
                        if af.get("event") and holder_net.get("cluster_event"):
                            holder_net["cluster_event"](dict(af["event"]))     # e.g. the coordinator fails over right now
                        return Fault(af["kind"], af.get("code", 0), af.get("delay", 0.0))
            if info["api"] not in apis or not counter["on"]:
                return None
            counter["n"] += 1
            f = plan.get(counter["n"])
            if f is None:
                return None
            code = f.get("code", 0)
            if f["kind"] == "error":
                # only the error codes a Kafka group coordinator can put in a reply of this API
                # (GroupCoordinator.scala: e.g. Heartbeat/SyncGroup never carry LOAD_IN_PROGRESS - the broker
                # answers NONE resp. REBALANCE_IN_PROGRESS while loading; JoinGroup never carries
                # ILLEGAL_GENERATION); a code outside that set is mapped into it deterministically
                valid = API_ERROR_CODES.get(info["api"])
                if valid and code not in valid:
                    code = valid[code % len(valid)]
            return Fault(f["kind"], code, f.get("delay", 0.0))
        c.fault_for = fault_for
        c.fault_counter = counter
        return c

    holder_net = {}

    async def scenario(loop, net):
        holder_net["net"] = net
        consumers = {}
        results = {}
        if sc.get("obs_cancel"):
            import closeobs
            closeobs.install_cancel_observer(loop)
        net.fault_counter["on"] = True
        PROBE["net"] = None
        if sc.get("probe"):
            install_probe()
            PROBE["net"] = net
            net.loop = loop
            ord_client = {}

            def probe_on_request(info):
                if info["api"] in ("JoinGroup", "SyncGroup", "Heartbeat", "OffsetCommit", "LeaveGroup"):
                    o = info["req"]
                    ord_client[info["ordinal"]] = info.get("client")
                    net.ev("p_req", c=info.get("client"), api=info["api"], ordinal=info["ordinal"], node=info["node"],
                           version=info["version"], member=o.get("member_id", o.get("consumer_id")),
                           gen=o.get("generation_id", o.get("consumer_group_generation_id")),
                           right_node=info["node"] == net.group_coordinator_node)
            net.on_request = probe_on_request
            orig_send_reply = net.send_reply

            def probe_send_reply(tr, cls, corr, resp_obj, delay, info):
                if info["api"] in ("JoinGroup", "SyncGroup", "Heartbeat", "OffsetCommit") and isinstance(resp_obj, dict):
                    if info["api"] == "OffsetCommit":
                        codes = sorted({p["error_code"] for t in resp_obj.get("topics", []) for p in t["partitions"]})
                        code = next((x for x in codes if x), 0)
                    else:
                        code = resp_obj.get("error_code")
                    net.ev("p_rep", c=info.get("client"), api=info["api"], ordinal=info["ordinal"], code=code,
                           gen=resp_obj.get("generation_id"), member=resp_obj.get("member_id"))
                return orig_send_reply(tr, cls, corr, resp_obj, delay, info)
            net.send_reply = probe_send_reply
            period = sc.get("probe_period", 0.25)

            def snapshot():
                net.ev("probe_snapshot", members=[probe_member_snapshot(n, c) for n, c in consumers.items()],
                       killed=sorted(n for n, r in results.items() if r.get("killed")),
                       stopping=sorted(n for n, r in results.items() if r.get("stopping")),
                       group=probe_group_snapshot(net, sc.get("probe_group", "g")))
                loop.call_later(period, snapshot)
            loop.call_later(period, snapshot)

        def cluster_event(e):
            op = e["op"]
            if op == "append":
                recs = []
                for i in range(e.get("n", 1)):
                    recs.append((i, 1000 + net.rid[0], b"k", b"r%d|" % net.rid[0], []))
                    net.rid[0] += 1
                net.append_raw(e["topic"], e["p"], lambda base: refcodec.build_v2(base, recs))
            elif op == "coord_move":
                net.gc.move(e["to"], e.get("keep_state", True))
            elif op == "node_down":
                net.set_up(e["node"], False)
            elif op == "node_up":
                net.set_up(e["node"], True)
            elif op == "all_down":
                for n in net.brokers:
                    net.set_up(n, False)
            elif op == "all_up":
                for n in net.brokers:
                    net.set_up(n, True)
            elif op == "loading":
                net.gc.loading = e["on"]
            elif op == "deny_group":
                net.gc.deny = e["on"]
            elif op == "leaderless":
                # the partition has no leader for e["for"] seconds (its position is looked up later than the others')
                lg = net.log(e["topic"], e["p"])
                old_leader = lg.leader
                lg.leader = -1

                def back(lg=lg, old_leader=old_leader):
                    lg.leader = old_leader
                loop.call_later(e["for"], back)
            elif op == "create_topic":
                net.add_topic(e["topic"], e["n"])
            elif op == "add_partitions":
                from simkit.cluster import PartitionLog
                cur = len(net.topics[e["topic"]])
                for p in range(cur, cur + e["n"]):
                    net.topics[e["topic"]][p] = PartitionLog(e["topic"], p, p % len(net.brokers))
            net.ev("cluster_event", **e)

        holder_net["cluster_event"] = cluster_event
        for e in sc.get("cluster_events") or []:
            loop.call_later(e["at"], cluster_event, e)

        async def actor(cfg):
            name = cfg["name"]
            holder = {}
            res = {"name": name, "errors": [], "stop": None, "killed": False}
            results[name] = res
            c = None
            for op in cfg["program"]:
                kind = op[0]
                try:
                    if kind == "sleep":
                        await asyncio.sleep(op[1])
                    elif kind == "start":
                        kw = dict(bootstrap_servers=net.bootstrap(), group_id=cfg.get("group"),
                                  client_id=name,
                                  enable_auto_commit=cfg.get("auto_commit", True),
                                  auto_commit_interval_ms=cfg.get("auto_commit_interval_ms", 500),
                                  auto_offset_reset=cfg.get("auto_offset_reset", "earliest"),
                                  session_timeout_ms=cfg.get("session_timeout_ms", 3000),
                                  heartbeat_interval_ms=cfg.get("heartbeat_interval_ms", 500),
                                  rebalance_timeout_ms=cfg.get("rebalance_timeout_ms", 3000),
                                  max_poll_interval_ms=cfg.get("max_poll_interval_ms", 300000),
                                  request_timeout_ms=cfg.get("request_timeout_ms", 2000),
                                  retry_backoff_ms=cfg.get("retry_backoff_ms", 100),
                                  metadata_max_age_ms=cfg.get("metadata_max_age_ms", 2000),
                                  fetch_max_wait_ms=cfg.get("fetch_max_wait_ms", 100),
                                  isolation_level=cfg.get("isolation", "read_uncommitted"),
                                  partition_assignment_strategy=[ASSIGNORS[a] for a in cfg.get("assignors", ["range"])])
                        if cfg.get("group_instance_id"):
                            kw["group_instance_id"] = cfg["group_instance_id"]
                        if cfg.get("bad_rids"):
                            # a user deserializer that fails once (transiently) on chosen records
                            pending_bad = set(cfg["bad_rids"])

                            def deser(b, pending_bad=pending_bad):
                                r = _rid(b)
                                if r in pending_bad:
                                    pending_bad.discard(r)
                                    net.ev("deserializer_error", c=name, rid=r)
                                    raise ValueError(f"cannot deserialize record {r}")
                                return b
                            kw["value_deserializer"] = deser
                        c = AIOKafkaConsumer(**kw)
                        holder["c"] = c
                        consumers[name] = c
                        lst = make_listener(net, name, holder, cfg)
                        if cfg.get("pattern"):
                            c.subscribe(pattern=cfg["pattern"], listener=lst)
                        elif cfg.get("assign") is not None:
                            c.assign([TopicPartition(t_, p_) for t_, p_ in cfg["assign"]])     # manual assignment
                        elif cfg["topics"]:
                            c.subscribe(cfg["topics"], listener=lst)
                        # else: neither subscribed nor assigned yet
                        net.ev("start_call", c=name)
                        await c.start()
                        net.ev("start_ret", c=name)
                    elif kind == "consume":
                        end = loop.time() + op[1]
                        while loop.time() < end:
                            try:
                                if cfg.get("consume_api") == "getone":
                                    # the application blocks in getone() (as `async for` does), one record at a time
                                    try:
                                        m1 = await asyncio.wait_for(c.getone(), timeout=max(op[2], 0.05))
                                        batch = {TopicPartition(m1.topic, m1.partition): [m1]}
                                    except asyncio.TimeoutError:
                                        batch = {}
                                else:
                                    batch = await c.getmany(timeout_ms=int(op[2] * 1000), max_records=op[3])
                            except Exception as e:  # noqa: BLE001
                                res["errors"].append({"t": loop.time(), "exc": type(e).__name__})
                                net.ev("api_error", c=name, exc=type(e).__name__)
                                await asyncio.sleep(0.05)
                                continue
                            for tp, msgs in batch.items():
                                for m in msgs:
                                    net.ev("deliver", c=name, topic=tp.topic, p=tp.partition, offset=m.offset,
                                           rid=_rid(m.value))
                            mc = cfg.get("manual_commit")
                            if mc and batch:
                                # the application commits what it has just processed: commit() of the current positions,
                                # or explicit offsets (last handed-out offset + 1, plain int or OffsetAndMetadata)
                                try:
                                    if mc == "all":
                                        await c.commit()
                                    else:
                                        offs = {tp: (msgs[-1].offset + 1 if mc == "explicit"
                                                     else OffsetAndMetadata(msgs[-1].offset + 1, "m"))
                                                for tp, msgs in batch.items() if msgs}
                                        await c.commit(offs)
                                    net.ev("commit_ret", c=name, ok=True)
                                except Exception as e:  # noqa: BLE001
                                    net.ev("commit_ret", c=name, ok=False, exc=type(e).__name__)
                            if op[4] if len(op) > 4 else 0:
                                await asyncio.sleep(op[4])
                    elif kind == "consume_stop":
                        # the application keeps polling with getmany() in this task while ANOTHER task calls stop()
                        # op[1] seconds from now; what a pending getmany() returns during the shutdown still counts
                        from aiokafka.errors import ConsumerStoppedError
                        t0s = loop.time()

                        async def stopper(c=c, op=op):
                            await asyncio.sleep(op[1])
                            res["stopping"] = True
                            net.ev("stop_call", c=name)
                            t1 = loop.time()
                            try:
                                await asyncio.wait_for(c.stop(), timeout=600.0)
                                res["stop"] = {"t": loop.time() - t1, "returned": True}
                            except asyncio.TimeoutError:
                                res["stop"] = {"t": loop.time() - t1, "returned": False}
                            net.ev("stop_ret", c=name, took=res["stop"]["t"], returned=res["stop"]["returned"])
                        st_task = asyncio.ensure_future(stopper())
                        while loop.time() - t0s < op[1] + 30.0:
                            try:
                                batch = await c.getmany(timeout_ms=int(op[2] * 1000))
                            except ConsumerStoppedError:
                                break
                            except Exception as e:  # noqa: BLE001
                                res["errors"].append({"t": loop.time(), "exc": type(e).__name__})
                                net.ev("api_error", c=name, exc=type(e).__name__)
                                await asyncio.sleep(0.05)
                                continue
                            for tp, msgs in batch.items():
                                for m in msgs:
                                    net.ev("deliver", c=name, topic=tp.topic, p=tp.partition, offset=m.offset,
                                           rid=_rid(m.value))
                        await st_task
                    elif kind == "commit":
                        try:
                            net.ev("commit_call", c=name)
                            await c.commit()
                            net.ev("commit_ret", c=name, ok=True)
                        except Exception as e:  # noqa: BLE001
                            net.ev("commit_ret", c=name, ok=False, exc=type(e).__name__)
                    elif kind == "unsubscribe":
                        c.unsubscribe()
                        net.ev("unsubscribe", c=name)
                    elif kind == "subscribe":
                        c.unsubscribe()
                        c.subscribe(op[1], listener=make_listener(net, name, holder, cfg))
                        net.ev("subscribe", c=name, topics=op[1])
                    elif kind == "stop":
                        t0 = loop.time()
                        res["stopping"] = True
                        net.ev("stop_call", c=name)
                        before = set(asyncio.all_tasks(loop))
                        try:
                            import closeobs
                            res["stop_tasks"] = closeobs.snapshot_consumer(c)
                            _mark = len(getattr(loop, "_cancel_log", []))
                            _owners = [c._coordinator, c._fetcher, c._client]
                        except Exception as e:  # noqa: BLE001
                            res["stop_tasks"] = {"error": repr(e)}
                        try:
                            try:
                                await asyncio.wait_for(c.stop(), timeout=op[1] if len(op) > 1 else 600.0)
                            finally:
                                if "error" not in res["stop_tasks"]:
                                    res["stop_tasks"] = closeobs.join_time_states(res["stop_tasks"], loop, _mark, _owners)
                            res["stop"] = {"t": loop.time() - t0, "returned": True}
                        except asyncio.TimeoutError:
                            res["stop"] = {"t": loop.time() - t0, "returned": False}
                        except asyncio.CancelledError:
                            # stop() itself raised CancelledError (nobody cancelled this actor)
                            res["stop"] = {"t": loop.time() - t0, "returned": True, "raised": "CancelledError"}
                            res["errors"].append({"t": loop.time(), "op": "stop", "exc": "CancelledError"})
                        net.ev("stop_ret", c=name, took=res["stop"]["t"], returned=res["stop"]["returned"])
                        # what is left right after stop() returned (before any later API call)
                        for _ in range(5):
                            await asyncio.sleep(0)
                        await asyncio.sleep(0.001)
                        others_active = any(k != name and v.get("stop") is None and not v.get("killed")
                                            and k in consumers for k, v in results.items())
                        if not others_active:
                            res["left_after_stop"] = {
                                "tasks": sorted({getattr(t.get_coro(), "__qualname__", str(t.get_coro()))
                                                 for t in asyncio.all_tasks(loop)
                                                 if not t.done() and t is not asyncio.current_task()
                                                 and getattr(t.get_coro(), "__qualname__", "") not in ("run_scenario.<locals>.scenario", "run_scenario.<locals>.scenario.<locals>.actor")}),
                                "transports": len(net.open_transports)}
                        # later API calls must fail (probed only when asked: C19)
                        later = {}
                        for nm, call in [] if not (len(op) > 2 and op[2]) else (("getone", lambda: c.getone()), ("getmany", lambda: c.getmany(timeout_ms=10)),
                                         ("commit", lambda: c.commit())):
                            try:
                                await asyncio.wait_for(call(), timeout=5.0)
                                later[nm] = "returned"
                            except asyncio.TimeoutError:
                                later[nm] = "hang"
                            except Exception as e:  # noqa: BLE001
                                later[nm] = type(e).__name__
                        res["after_stop_calls"] = later
                    elif kind == "kill":
                        res["killed"] = True
                        net.ev("kill", c=name)
                        async def dead_send(*a, **k):
                            # a fresh future per call: cancelling one caller must not wake the others
                            await loop.create_future()
                        c._client.send = dead_send
                        for conn in list(c._client._conns.values()):
                            try:
                                conn._writer.transport.server_drop()
                            except Exception:  # noqa: BLE001
                                pass
                        return
                except Exception as e:  # noqa: BLE001
                    res["errors"].append({"t": loop.time(), "op": kind, "exc": type(e).__name__,
                                          "msg": str(e)[:200]})
                    net.ev("api_error", c=name, exc=type(e).__name__, op=kind)
            res["final_member"] = None

        actors = [asyncio.ensure_future(actor(cfg)) for cfg in sc["consumers"]]
        await asyncio.gather(*actors)
        # leftover tasks attributable to stopped clients (cancelled tasks need a few iterations)
        for _ in range(5):
            await asyncio.sleep(0)
        await asyncio.sleep(0.001)
        out["pending_tasks"] = sorted({getattr(t.get_coro(), "__qualname__", str(t.get_coro()))
                                       for t in asyncio.all_tasks(loop)
                                       if not t.done() and t is not asyncio.current_task()})
        out["open_transports"] = len(net.open_transports)
        out["scheduled_timers"] = sum(1 for h in loop._scheduled if not h._cancelled)
        out["consumers"] = results
        groups = {}
        for gid, g in net.gc.groups.items():
            groups[gid] = {
                "state": g.state, "generation": g.generation, "members": sorted(g.members),
                "offsets": {f"{t}:{p}": off for (t, p), (off, _m) in g.offsets.items()},
                "commit_log": g.commit_log,
                "history": [{"generation": h["generation"], "members": h["members"], "leader": h["leader"],
                             "protocol": h["protocol"],
                             "assignments": {m: decode_assignment(a) for m, a in (h["assignments"] or {}).items()}
                             if h["assignments"] is not None else None} for h in g.history]}
        out["groups"] = groups
        out["logs"] = {t: {str(p): [[r["offset"], _rid(r["value"])] for r in lg.records()] for p, lg in parts.items()}
                       for t, parts in net.topics.items()}
        keep = ("deliver", "cb_revoked_begin", "cb_revoked_end", "cb_assigned_begin", "cb_assigned_end",
                "start_call", "start_ret", "stop_call", "stop_ret", "kill", "api_error", "commit_call",
                "commit_ret", "subscribe", "cluster_event", "join_request", "join_complete", "sync_request",
                "sync_complete", "heartbeat", "leave_request", "offset_commit", "session_expired",
                "prepare_rebalance", "coordinator_move", "member_dropped_at_rebalance_timeout", "member_id_assigned")
        if sc.get("probe"):
            keep = keep + ("m_send", "m_reply", "m_err", "m_cancel", "m_ck", "m_call", "p_req", "p_rep", "probe_snapshot")
            PROBE["net"] = None
        out["trace"] = [e for e in net.trace if e["ev"] in keep or (e["ev"] == "request" and (e["api"] in (
            "JoinGroup", "SyncGroup", "LeaveGroup", "OffsetCommit", "FindCoordinator") or e.get("fault")))]
        out["vtime"] = loop.time()
        out["spin_steps"] = loop.spin_steps
        return out

    try:
        return run_sim(scenario, mk, max_vtime=sc.get("max_vtime", 3600.0), seed=sc.get("seed", 0))
    except SimDeadlock as e:
        net = holder_net.get("net")
        tail = [ev for ev in (net.trace if net else []) if ev["ev"] in ("stop_call", "stop_ret", "kill", "start_call", "start_ret")]
        tail += [ev for ev in (net.trace if net else []) if ev["ev"] not in ("fetch", "heartbeat", "reply")][-30:]
        return {"id": sc["id"], "ok": False, "error": "SimDeadlock: " + str(e), "trace_tail": tail,
                "stacks": getattr(e, "stacks", [])}
    except Exception as e:  # noqa: BLE001
        return {"id": sc["id"], "ok": False, "error": type(e).__name__ + ": " + str(e),
                "tb": traceback.format_exc()[-1500:]}


def main():
    req = json.load(sys.stdin)
    results = [run_scenario(sc) for sc in req["scenarios"]]
    print(json.dumps({"results": results}, default=lambda o: o.decode("latin1") if isinstance(o, bytes) else str(o)))


if __name__ == "__main__":
    import logging
    logging.disable(logging.CRITICAL)
    main()
