"""Drive the real CoordinatorGroupRebalance.perform_group_join against scripted replies."""
import asyncio
import json
import sys

import aiokafka.errors as Errors
from aiokafka.consumer.group_coordinator import CoordinatorGroupRebalance
from aiokafka.protocol.group import JoinGroupRequest, SyncGroupRequest

req = json.load(sys.stdin)

NAMES = {1: "range", 2: "roundrobin", 3: "sticky"}
CODES = {"LoadInProgress": 14, "UnknownMember": 25, "CoordinatorGone": 16, "CoordinatorGone2": 15,
         "FatalJoin": 23, "UnexpectedJoin": 42}


class FakeAssignor:
    def __init__(self, i):
        self.name = NAMES[i]
        self.i = i

    def metadata(self, topics):
        return b"md%d" % self.i


class Resp:
    pass


class Sub:
    def __init__(self):
        self.active = True
        self.topics = {"t"}


async def run_case(case):
    asg, mid0, replies = case["asg"], case["mid"], case["replies"]
    sent = []
    it = iter(replies)
    sub = Sub()

    class Coord:
        member_id = "" if mid0 == 0 else f"m{mid0}"
        generation = -1
        _group_instance_id = None
        _rebalance_timeout_ms = 1000
        _rejoin_needed_fut = None

        def reset_generation(self):
            self.generation = -1
            self.member_id = ""

        def coordinator_dead(self):
            pass

        def request_rejoin(self):
            pass

        async def _perform_assignment(self, response):
            return {response.member_id: b"A"}

        async def _send_req(self, request):
            nonlocal sent
            # inspect the builder
            if isinstance(request, JoinGroupRequest):
                obj = request.prepare({11: (0, case.get("jv", 5))}).to_object()
                sent.append(["join", [p["protocol_name"] for p in obj["group_protocols"]], obj["member_id"]])
            elif isinstance(request, SyncGroupRequest):
                obj = request.prepare({14: (0, 3)}).to_object()
                sent.append(["sync", obj["generation_id"], obj["member_id"], len(obj["group_assignment"])])
            else:
                sent.append(["other", type(request).__name__])
            try:
                r = next(it)
            except StopIteration:
                raise asyncio.CancelledError()
            k = r[0]
            if k == "ConnErr":
                raise Errors.KafkaConnectionError("x")
            if k == "SubChanged":
                sub.active = False
                resp = Resp()
                resp.error_code = 0
                resp.member_id = "x"
                resp.generation_id = 1
                resp.group_protocol = "range"
                resp.leader_id = "y"
                resp.members = []
                return resp
            resp = Resp()
            if k == "JoinOk":
                resp.error_code = 0
                resp.generation_id = r[1]
                resp.member_id = f"m{r[2]}"
                resp.leader_id = resp.member_id if r[3] else "someone-else"
                resp.group_protocol = NAMES[asg[0]]
                resp.members = []
            elif k == "MemberIdRequired":
                resp.error_code = 79
                resp.member_id = f"m{r[1]}"
            elif k == "SyncOk":
                resp.error_code = 0
                resp.member_assignment = b"A"
            elif k == "SyncErr":
                resp.error_code = 27
                resp.member_assignment = b""
            else:
                resp.error_code = CODES[k]
                resp.member_id = ""
            return resp

    coord = Coord()
    rb = CoordinatorGroupRebalance(coord, "g", 0, sub, [FakeAssignor(i) for i in asg], 1000, 1)
    outcome = None
    try:
        res = await rb.perform_group_join()
        outcome = "Joined" if res is not None else "RetryLater"
    except asyncio.CancelledError:
        outcome = "ScriptEnded"
    except Exception as e:  # noqa: BLE001
        outcome = "Raised"
    return {"sent": sent, "outcome": outcome}


async def main():
    return [await run_case(c) for c in req["cases"]]

print(json.dumps({"out": asyncio.run(main())}))
