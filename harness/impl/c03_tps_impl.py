"""Differential for the translated TopicPartitionState methods: runs operation sequences on the real class.
stdin {"seqs": [[["seek", 5], ["pause"], ...], ...]} -> {"out": [[state-or-"ASSERT" after each op], ...]}"""
import asyncio
import json
import sys

from aiokafka.consumer.subscription_state import TopicPartitionState


class _Ev:
    def set(self):
        pass


class _Asg:
    commit_refresh_needed = _Ev()


async def main():
    req = json.load(sys.stdin)
    out = []
    for seq in req["seqs"]:
        t = TopicPartitionState(_Asg())
        res = []
        dead = False
        for op in seq:
            if dead:
                res.append("SKIP")
                continue
            try:
                getattr(t, op[0])(*op[1:])
                res.append([t._position, t._reset_strategy, t._status.value, bool(t._paused)])
            except AssertionError:
                res.append("ASSERT")
                dead = True
        out.append(res)
    print(json.dumps({"out": out}))

asyncio.run(main())
