"""Runs under /venv/bin/python with PYTHONPATH=/repo.

The real aiokafka.conn.AIOKafkaConnection (created and connected through its own
connect(): loop.create_connection is answered with an in-memory transport, the ApiVersions
exchange of connect() is served from the scenario's broker profile) is driven through a list
of events on a virtual-time asyncio loop; no sockets, no real waiting.

request  {"mode": "catalog", "kinds": [[name, version], ...], "seed": n, "bodies": k}
      -> {"kinds": [{name, version, api_key, flex, quirk, response, bodies: [hex...]}, ...]}
request  {"mode": "run", "kinds": [[name, version], ...], "scenarios": [...], "queries": [[kind, frame_hex], ...]}
      -> {"results": [...], "oracle": [[kind, body_hex|null, ok, digest, resp_class], ...]}
"""
import asyncio
import hashlib
import io
import json
import random
import selectors
import struct
import sys
import warnings

import aiokafka.errors as Errors
from aiokafka.client import AIOKafkaClient, ConnectionGroup
from aiokafka.conn import AIOKafkaConnection, CloseReason
from aiokafka.protocol import types as T
from aiokafka.protocol.admin import (
    AlterPartitionReassignmentsRequest,
    ApiVersionRequest,
    ApiVersionResponse_v0,
    DeleteRecordsRequest,
    DescribeGroupsRequest,
    ListGroupsRequest,
    ListPartitionReassignmentsRequest,
    SaslHandShakeRequest,
)
from aiokafka.protocol.commit import OffsetFetchRequest
from aiokafka.protocol.coordination import FindCoordinatorRequest, FindCoordinatorResponse_v0
from aiokafka.protocol.group import HeartbeatRequest, LeaveGroupRequest
from aiokafka.protocol.metadata import MetadataRequest
from aiokafka.protocol.offset import OffsetRequest
from aiokafka.protocol.produce import ProduceRequest

warnings.simplefilter("ignore")

BUILDERS = {
    "Metadata": lambda: MetadataRequest(["topic-a", "topic-b"]),
    "ApiVersions": lambda: ApiVersionRequest(),
    "FindCoordinator": lambda: FindCoordinatorRequest("group-1", 0),
    "Heartbeat": lambda: HeartbeatRequest("group-1", 7, "member-1"),
    "LeaveGroup": lambda: LeaveGroupRequest("group-1", "member-1"),
    "DeleteRecords": lambda: DeleteRecordsRequest([("topic-a", [(0, 17)])], 1000),
    "ListPartitionReassignments": lambda: ListPartitionReassignmentsRequest(1000, [("topic-a", [0, 1], {})], {}),
    "AlterPartitionReassignments": lambda: AlterPartitionReassignmentsRequest(
        1000, [("topic-a", [(0, [1, 2], {})], {})], {}),
    "SaslHandShake": lambda: SaslHandShakeRequest("PLAIN"),
    "ListOffsets": lambda: OffsetRequest(-1, 0, [("topic-a", [(0, -1)])]),
    "OffsetFetch": lambda: OffsetFetchRequest("group-1", [("topic-a", [0, 1])]),
    "ListGroups": lambda: ListGroupsRequest(),
    "DescribeGroups": lambda: DescribeGroupsRequest(["group-1"]),
}


def struct_class(name, version):
    b = BUILDERS[name]()
    return b, b.prepare({b.API_KEY: (version, version)}).__class__


# ------------------------------------------------------------------ random values of a schema type
def gen_value(t, rng, depth=0):
    if t is T.Int8:
        return rng.randrange(-128, 128)
    if t is T.Int16:
        return rng.choice([0, 0, 0, 1, 7, 35, -1, rng.randrange(-2**15, 2**15)])
    if t is T.Int32:
        return rng.choice([0, 1, 42, -1, rng.randrange(-2**31, 2**31)])
    if t is T.UInt32:
        return rng.randrange(0, 2**32)
    if t is T.Int64:
        return rng.choice([0, 1, -1, rng.randrange(-2**63, 2**63)])
    if t is T.Float64:
        return float(rng.randrange(-1000, 1000)) / 8
    if t is T.Boolean:
        return rng.random() < 0.5
    if t is T.TaggedFields:
        return {} if rng.random() < 0.7 else {rng.randrange(1, 50): bytes(rng.randrange(256) for _ in range(rng.randrange(4)))}
    if t is T.Bytes or t is T.CompactBytes:
        return None if rng.random() < 0.2 else bytes(rng.randrange(256) for _ in range(rng.randrange(6)))
    if isinstance(t, T.String):      # includes CompactString
        return None if rng.random() < 0.15 else "".join(rng.choice("abcxyz-09é") for _ in range(rng.randrange(7)))
    if isinstance(t, T.Array):       # includes CompactArray
        n = rng.randrange(0, 3 if depth < 2 else 2)
        return [gen_value(t.array_of, rng, depth + 1) for _ in range(n)]
    if isinstance(t, T.Schema):
        return tuple(gen_value(f, rng, depth + 1) for f in t.fields)
    raise TypeError(f"no generator for {t!r}")


def digest_of(obj):
    return hashlib.sha1(repr(obj).encode()).hexdigest()[:16]


def catalog(req):
    rng = random.Random(req.get("seed", 0))
    out = []
    for name, version in req["kinds"]:
        entry = {"name": name, "version": version}
        try:
            _, cls = struct_class(name, version)
            if cls.API_VERSION != version:
                raise ValueError("version not available")
            rt = cls.RESPONSE_TYPE
            bodies = []
            tries = 0
            while len(bodies) < req.get("bodies", 4) and tries < 50:
                tries += 1
                vals = [gen_value(f, rng) for f in rt.SCHEMA.fields]
                enc = rt(*vals).encode()
                dec = rt.decode(io.BytesIO(enc))           # keep only bodies the decoder accepts
                if dec.encode() == enc and enc.hex() not in bodies:
                    bodies.append(enc.hex())
            entry.update({"api_key": cls.API_KEY, "flex": bool(cls.FLEXIBLE_VERSION),
                          "quirk": rt is FindCoordinatorResponse_v0, "response": rt.__name__,
                          "bodies": bodies, "ok": bool(bodies)})
        except Exception as e:  # noqa: BLE001
            entry.update({"ok": False, "error": f"{type(e).__name__}: {e}"})
        out.append(entry)
    return {"kinds": out}


# ------------------------------------------------------------------ virtual-time loop, in-memory transport
class VSelector:
    def __init__(self):
        self._real = selectors.DefaultSelector()
        self.loop = None

    def select(self, timeout=None):
        if timeout is None:
            raise RuntimeError("virtual-time loop: nothing scheduled (deadlock)")
        if timeout > 0:
            self.loop._vt += timeout
        return self._real.select(0)

    def __getattr__(self, name):
        return getattr(self._real, name)


class VLoop(asyncio.SelectorEventLoop):
    def __init__(self):
        sel = VSelector()
        self._vt = 0.0
        super().__init__(sel)
        sel.loop = self
        self.transports = []

    def time(self):
        return self._vt

    async def create_connection(self, protocol_factory, host=None, port=None, **kw):
        protocol = protocol_factory()
        tr = MemTransport(self, protocol)
        self.transports.append(tr)
        protocol.connection_made(tr)
        return tr, protocol


class MemTransport(asyncio.Transport):
    def __init__(self, loop, protocol):
        super().__init__()
        self._loop = loop
        self._protocol = protocol
        self._closing = False
        self._lost = False
        self.written = bytearray()

    # --- transport API used by StreamWriter / StreamReaderProtocol
    def write(self, data):
        if not self._closing:
            self.written += data

    def is_closing(self):
        return self._closing

    def close(self):
        if not self._closing:
            self._closing = True
            self._loop.call_soon(self._call_lost, None)

    abort = close

    def _call_lost(self, exc):
        if not self._lost:
            self._lost = True
            self._protocol.connection_lost(exc)

    def get_extra_info(self, name, default=None):
        return default

    def pause_reading(self):
        pass

    def resume_reading(self):
        pass

    def is_reading(self):
        return not self._closing

    def get_write_buffer_size(self):
        return 0

    def set_write_buffer_limits(self, high=None, low=None):
        pass

    def can_write_eof(self):
        return False

    # --- the peer
    def peer_send(self, data):
        if not self._closing:
            self._protocol.data_received(data)

    def peer_eof(self):
        if not self._closing:
            keep_open = self._protocol.eof_received()
            if not keep_open:
                self.close()

    def peer_reset(self):
        if not self._closing:
            self._closing = True
            self._loop.call_soon(self._call_lost, ConnectionResetError(104, "Connection reset by peer"))


SLOT = 1000.0


def classify(task_or_exc):
    e = task_or_exc
    if isinstance(e, asyncio.CancelledError):
        return ["Cancelled"]
    n = type(e).__name__
    if isinstance(e, Errors.CorrelationIdError):
        return ["CorrErr"]
    if isinstance(e, Errors.RequestTimedOutError) or isinstance(e, asyncio.TimeoutError):
        return ["TimedOut", n]
    if isinstance(e, Errors.NodeNotReadyError):
        return ["ConnErr", "noconn", n]
    if isinstance(e, Errors.KafkaConnectionError):
        c = e.__cause__
        if c is None:
            cat = "noconn" if "No connection to broker" in str(e) else "none"
        elif isinstance(c, asyncio.IncompleteReadError):
            cat = "eof"
        elif isinstance(c, ConnectionResetError):
            cat = "reset"
        elif isinstance(c, IndexError):
            cat = "unsolicited"
        else:
            cat = "malformed"
        return ["ConnErr", cat, type(c).__name__ if c is not None else None]
    return ["Other", n, str(e)[:100]]


async def settle(n=12):
    for _ in range(n):
        await asyncio.sleep(0)


async def run_scenario(loop, sc, classes):
    api_versions = [(int(k), v[0], v[1]) for k, v in sc["profile"].items()] + [(0, 0, 7)]   # + Produce
    client = AIOKafkaClient(bootstrap_servers="mem:9092", request_timeout_ms=10**9)
    conn = AIOKafkaConnection("mem", 9092, request_timeout_ms=10**9, on_close=client._on_connection_closed)
    ctask = loop.create_task(conn.connect())
    await settle()
    tr = loop.transports[-1]
    # answer the ApiVersionRequest of connect() (correlation id 1, header v0)
    body = struct.pack(">i", 1) + ApiVersionResponse_v0(error_code=0, api_versions=api_versions).encode()
    tr.peer_send(struct.pack(">i", len(body)) + body)
    await ctask
    client._conns[(0, ConnectionGroup.DEFAULT)] = conn
    conn._correlation_id = sc["corr0"]          # preset (e.g. near 2**31)
    wrote0 = len(tr.written)
    waiters = []                                 # task or ["sync-exception", exc]
    sent_corr = []
    waiter_corr = []
    seen = wrote0
    for pos, ev in enumerate(sc["events"]):
        # every event happens at its own slot of virtual time; timeouts fire in between
        target = SLOT * (pos + 1)
        if loop.time() < target:
            await asyncio.sleep(target - loop.time())
        await settle(4)
        kind = ev[0]
        if kind in ("send", "send_raw"):
            tpos = ev[3] if kind == "send" else ev[1]
            conn._request_timeout = (SLOT * (tpos + 1) - SLOT / 2 - loop.time()) if tpos is not None else 10**9
            try:
                if kind == "send_raw":
                    aw = conn._send_sasl_token(b"sasl-token")
                elif ev[2]:     # through the client
                    aw = client.send(0, BUILDERS[classes[ev[1]][0]]())
                else:
                    aw = conn.send(BUILDERS[classes[ev[1]][0]]())
                waiters.append(loop.create_task(aw))
            except Exception as e:  # noqa: BLE001   send() raises synchronously on a closed connection
                waiters.append(["sync", e])
        elif kind == "send_noresp":
            try:
                aw = conn.send(ProduceRequest(None, 0, 1000, []), expect_response=False)
                loop.create_task(aw)
            except Exception:  # noqa: BLE001
                pass
        elif kind == "feed":
            tr.peer_send(bytes.fromhex(ev[1]))
        elif kind == "feed_eof":
            tr.peer_send(bytes.fromhex(ev[1]))
            tr.peer_eof()
        elif kind == "timeout":
            pass                                  # the deadline chosen at send time has just passed
        elif kind == "cancel":
            w = waiters[ev[1]]
            if not isinstance(w, list):
                w.cancel()
        elif kind == "eof":
            tr.peer_eof()
        elif kind == "reset":
            tr.peer_reset()
        elif kind == "close":
            if len(ev) > 1 and ev[1]:
                conn.close(reason=CloseReason[ev[1]])
            else:
                conn.close()
        else:
            raise ValueError(kind)
        await settle()
        # what this event put on the wire
        new = bytes(tr.written[seen:])
        seen = len(tr.written)
        ids = []
        k = 0
        while k + 4 <= len(new):
            (size,) = struct.unpack(">i", new[k:k + 4])
            ids.append(None if new[k + 4:k + 14] == b"sasl-token" else struct.unpack(">i", new[k + 8:k + 12])[0])
            k += 4 + size
        if kind in ("send", "send_raw"):
            waiter_corr.append(ids[0] if len(ids) == 1 else None)
    await settle()
    outcomes = []
    for w in waiters:
        if isinstance(w, list):
            outcomes.append(classify(w[1]))
        elif not w.done():
            outcomes.append(["Pending"])
        elif w.cancelled():
            outcomes.append(["Cancelled"])
        elif w.exception() is not None:
            outcomes.append(classify(w.exception()))
        else:
            r = w.result()
            if isinstance(r, (bytes, bytearray)):
                outcomes.append(["Raw", bytes(r).hex()])
            else:
                outcomes.append(["Resp", type(r).__name__, digest_of(r)])
    res = {"outcomes": outcomes, "open": conn._reader is not None, "corr": conn._correlation_id,
           "inflight": len(conn._requests)}
    # correlation ids actually put on the wire (request header: size, api_key, api_version, correlation_id)
    w = bytes(tr.written[wrote0:])
    k = 0
    while k + 12 <= len(w):
        (size,) = struct.unpack(">i", w[k:k + 4])
        if w[k + 4:k + 14] == b"sasl-token":
            sent_corr.append(None)
        else:
            sent_corr.append(struct.unpack(">i", w[k + 8:k + 12])[0])
        k += 4 + size
    res["sent_corr"] = sent_corr
    res["waiter_corr"] = waiter_corr
    # cleanup
    for w in waiters:
        if not isinstance(w, list) and not w.done():
            w.cancel()
    conn.close()
    await settle()
    return res


def run(req):
    classes = []
    for name, version in req["kinds"]:
        _, cls = struct_class(name, version)
        classes.append((name, cls))
    results = []
    for sc in req["scenarios"]:
        loop = VLoop()
        asyncio.set_event_loop(loop)
        loop.set_exception_handler(lambda lp, ctx: None)
        try:
            results.append(loop.run_until_complete(run_scenario(loop, sc, classes)))
        except Exception as e:  # noqa: BLE001
            import traceback
            results.append({"driver_error": f"{type(e).__name__}: {e}", "tb": traceback.format_exc()[-800:]})
        finally:
            try:
                pend = [t for t in asyncio.all_tasks(loop) if not t.done()]
                for t in pend:
                    t.cancel()
                if pend:
                    loop.run_until_complete(asyncio.gather(*pend, return_exceptions=True))
            except Exception:  # noqa: BLE001
                pass
            loop.close()
    oracle = []
    for kind, fhex in req.get("queries", []):
        name, cls = classes[kind]
        frame = bytes.fromhex(fhex)
        buf = io.BytesIO(frame)
        try:
            hdr = cls(*([None] * len(cls.SCHEMA.fields))).parse_response_header(buf)
            body = buf.read()
        except Exception:  # noqa: BLE001
            oracle.append([kind, None, False, None, None, None])
            continue
        try:
            obj = cls.RESPONSE_TYPE.decode(io.BytesIO(body))
            oracle.append([kind, body.hex(), True, digest_of(obj), type(obj).__name__, hdr.correlation_id])
        except Exception:  # noqa: BLE001
            oracle.append([kind, body.hex(), False, None, None, hdr.correlation_id])
    return {"results": results, "oracle": oracle}


def main():
    import logging
    logging.disable(logging.CRITICAL)
    req = json.load(sys.stdin)
    out = catalog(req) if req["mode"] == "catalog" else run(req)
    print(json.dumps(out))


main()
