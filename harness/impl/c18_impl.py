"""Runs under /venv/bin/python with PYTHONPATH=/repo.
Drives the real aiokafka.conn.ScramAuthenticator, through its public step() method with a
loop whose run_in_executor runs the function inline (exactly what
AIOKafkaConnection._do_sasl_handshake does, minus the thread), against the independent
RFC 5802 server of c18_rfc_server.py; server messages may be tampered with in transit.

stdin : {"cases": [ {mech, user, password, server_password, salt:[..], iterations, snonce,
                     uuid_int | null, tamper1: [op...], tamper2: [op...], final_mode} ]}
stdout: {"results": [ transcript ]}
"""
import base64
import json
import os
import sys
import uuid

sys.path.insert(0, os.path.dirname(os.path.abspath(__file__)))
import c18_rfc_server as srv  # noqa: E402

from aiokafka.conn import ScramAuthenticator  # noqa: E402


class InlineLoop:
    def run_in_executor(self, executor, fn, *args):
        return fn(*args)


_real_uuid4 = uuid.uuid4


def run_case(c):
    mech = c["mech"]
    user, pw = c["user"], c["password"]
    salt = bytes(c["salt"])
    it = c["iterations"]
    t = {}
    if c.get("uuid_int") is not None:
        k = c["uuid_int"]
        uuid.uuid4 = lambda: uuid.UUID(int=k)
    else:
        uuid.uuid4 = _real_uuid4
    try:
        auth = ScramAuthenticator(loop=InlineLoop(), sasl_plain_password=pw,
                                  sasl_plain_username=user, sasl_mechanism=mech)
    finally:
        uuid.uuid4 = _real_uuid4
    t["client_nonce"] = auth._nonce          # read before the first step; model input
    stored, skey = srv.derive(mech, c["server_password"].encode("utf-8"), salt, it)
    server = srv.ScramServer(mech, {user.encode("utf-8"): (salt, it, stored, skey)},
                             c["snonce"].encode("ascii"))
    events = []
    t["events"] = events

    def step(payload):
        try:
            r = auth.step(payload)
        except BaseException as e:  # noqa: BLE001
            events.append(["Raised", type(e).__name__])
            return None
        if r is None:
            events.append(["Complete"])
            return None
        msg, expect = r
        assert expect is True
        events.append(["Emit", list(msg)])
        return msg

    cf = step(None)
    if cf is None:
        return t
    try:
        sf = server.handle_client_first(cf)
        t["server_parsed"] = [list(server.user), list(server.cnonce)]
    except srv.ProtocolError as e:
        t["server_rejected_first"] = str(e)
        return t
    t["server_first_orig"] = list(sf)
    for op in c.get("tamper1", []):
        sf = srv.tamper(sf, op)
    t["server_first_sent"] = list(sf)
    cfin = step(sf)
    if cfin is None:
        return t
    mode = c.get("final_mode", "honest")
    if mode == "honest":
        sfin = server.handle_client_final(cfin)
        t["server_proof_ok"] = server.proof_ok
    else:   # "sign_sent": no verification; signs the transcript as transmitted
        k = cfin.rfind(b",p=")
        a = cf[3:] + b"," + sf + b"," + (cfin[:k] if k >= 0 else cfin)
        sfin = b"v=" + base64.b64encode(srv.hmac_(mech, skey, a))
    t["server_final_orig"] = list(sfin)
    for op in c.get("tamper2", []):
        sfin = srv.tamper(sfin, op)
    t["server_final_sent"] = list(sfin)
    step(sfin)
    return t


def main():
    req = json.load(sys.stdin)
    out = []
    for c in req["cases"]:
        try:
            out.append(run_case(c))
        except Exception as e:  # noqa: BLE001  (driver problem, not a client exception)
            out.append({"driver_error": f"{type(e).__name__}: {e}"})
    print(json.dumps({"results": out}))


main()
