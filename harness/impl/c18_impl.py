"""Runs under /venv/bin/python with PYTHONPATH=/repo.
Drives the real aiokafka.conn.ScramAuthenticator, through its public step() method with a
loop whose run_in_executor runs the function inline (exactly what
AIOKafkaConnection._do_sasl_handshake does, minus the thread), against the independent
RFC 5802 server of c18_rfc_server.py; server messages may be tampered with in transit.

stdin : {"cases": [ {mech, user, password, server_password, salt:[..], iterations, snonce,
                     uuid_int | null, tamper1: [op...], tamper2: [op...], final_mode} ]}
stdout: {"results": [ transcript ]}
"""
import base64
import json
import os
import sys
import uuid

sys.path.insert(0, os.path.dirname(os.path.abspath(__file__)))
import c18_rfc_server as srv  # noqa: E402

from aiokafka.conn import ScramAuthenticator  # noqa: E402


class InlineLoop:
    def run_in_executor(self, executor, fn, *args):
        return fn(*args)


_real_uuid4 = uuid.uuid4


def run_case(c):
    mech = c["mech"]
    user, pw = c["user"], c["password"]
    salt = bytes(c["salt"])
    it = c["iterations"]
    t = {}
    if c.get("uuid_int") is not None:
        k = c["uuid_int"]
        uuid.uuid4 = lambda: uuid.UUID(int=k)
    else:
        uuid.uuid4 = _real_uuid4
    try:
        auth = ScramAuthenticator(loop=InlineLoop(), sasl_plain_password=pw,
                                  sasl_plain_username=user, sasl_mechanism=mech)
    finally:
        uuid.uuid4 = _real_uuid4
    t["client_nonce"] = auth._nonce          # read before the first step; model input
    stored, skey = srv.derive(mech, c["server_password"].encode("utf-8"), salt, it)
    server = srv.ScramServer(mech, {user.encode("utf-8"): (salt, it, stored, skey)},
                             c["snonce"].encode("ascii"))
    events = []
    t["events"] = events

    def step(payload):
        try:
            r = auth.step(payload)
        except BaseException as e:  # noqa: BLE001
            events.append(["Raised", type(e).__name__])
            return None
        if r is None:
            events.append(["Complete"])
            return None
        msg, expect = r
        assert expect is True
        events.append(["Emit", list(msg)])
        return msg

    cf = step(None)
    if cf is None:
        return t
    try:
        sf = server.handle_client_first(cf)
        t["server_parsed"] = [list(server.user), list(server.cnonce)]
    except srv.ProtocolError as e:
        t["server_rejected_first"] = str(e)
        return t
    t["server_first_orig"] = list(sf)
    for op in c.get("tamper1", []):
        sf = srv.tamper(sf, op)
    t["server_first_sent"] = list(sf)
    cfin = step(sf)
    if cfin is None:
        return t
    mode = c.get("final_mode", "honest")
    if mode == "honest":
        sfin = server.handle_client_final(cfin)
        t["server_proof_ok"] = server.proof_ok
    else:   # "sign_sent": no verification; signs the transcript as transmitted
        k = cfin.rfind(b",p=")
        a = cf[3:] + b"," + sf + b"," + (cfin[:k] if k >= 0 else cfin)
        sfin = b"v=" + base64.b64encode(srv.hmac_(mech, skey, a))
    t["server_final_orig"] = list(sfin)
    for op in c.get("tamper2", []):
        sfin = srv.tamper(sfin, op)
    t["server_final_sent"] = list(sfin)
    step(sfin)
    return t


# ------------------------------------------------------------------ end to end: the connection's SASL loop
import asyncio  # noqa: E402

from aiokafka.conn import AIOKafkaConnection  # noqa: E402
from aiokafka.protocol.admin import SaslAuthenticateRequest, SaslHandShakeRequest  # noqa: E402


class _DoneLoop:
    """run_in_executor that runs inline and returns an awaitable (what the handshake loop awaits)."""

    def run_in_executor(self, executor, fn, *args):
        fut = asyncio.get_running_loop().create_future()
        try:
            fut.set_result(fn(*args))
        except BaseException as e:  # noqa: BLE001
            fut.set_exception(e)
        return fut


async def run_e2e(c, handshake_version, client_nonce):
    """The real AIOKafkaConnection._do_sasl_handshake against the same RFC server and the same tampering;
    the transport is replaced by the server function.  Returns "Authenticated" or ["Raised", class]."""
    mech = c["mech"]
    user, pw = c["user"], c["password"]
    salt = bytes(c["salt"])
    it = c["iterations"]
    stored, skey = srv.derive(mech, c["server_password"].encode("utf-8"), salt, it)
    server = srv.ScramServer(mech, {user.encode("utf-8"): (salt, it, stored, skey)},
                             c["snonce"].encode("ascii"))
    st = {"stage": 0, "cf": None, "sf": None, "replies": []}

    def respond(msg):
        msg = bytes(msg)
        st["stage"] += 1
        if st["stage"] == 1:
            st["cf"] = msg
            sf = server.handle_client_first(msg)
            for op in c.get("tamper1", []):
                sf = srv.tamper(sf, op)
            st["sf"] = sf
            st["replies"].append(list(sf))
            return sf
        if st["stage"] == 2:
            if c.get("final_mode", "honest") == "honest":
                sfin = server.handle_client_final(msg)
            else:
                k = msg.rfind(b",p=")
                a = st["cf"][3:] + b"," + st["sf"] + b"," + (msg[:k] if k >= 0 else msg)
                sfin = b"v=" + base64.b64encode(srv.hmac_(mech, skey, a))
            for op in c.get("tamper2", []):
                sfin = srv.tamper(sfin, op)
            st["replies"].append(list(sfin))
            return sfin
        raise AssertionError("client sent a third token")

    conn = AIOKafkaConnection("broker", 9092, security_protocol="SASL_PLAINTEXT", sasl_mechanism=mech,
                              sasl_plain_username=user, sasl_plain_password=pw)
    conn._loop = _DoneLoop()
    closed = []
    conn.close = lambda *a, **k: closed.append(1)

    class R:
        pass

    async def send(request, expect_response=True):
        r = R()
        if isinstance(request, SaslHandShakeRequest):
            r.error_code = 0
            r.enabled_mechanisms = [mech]
            r.API_VERSION = handshake_version
            return r
        if isinstance(request, SaslAuthenticateRequest):
            r.error_code = 0
            r.error_message = None
            r.sasl_auth_bytes = respond(request._payload)
            return r
        raise AssertionError(type(request).__name__)

    async def send_token(payload, expect_response):
        return respond(payload)
    conn.send = send
    conn._send_sasl_token = send_token
    real_scram = conn.authenticator_scram

    def scram():
        a = real_scram()
        a._nonce = client_nonce          # the same client nonce as the step-level run
        return a
    conn.authenticator_scram = scram
    try:
        await conn._do_sasl_handshake()
        return {"outcome": "Authenticated", "tokens": st["stage"], "replies": st["replies"]}
    except srv.ProtocolError as e:
        return {"outcome": "ServerRejected", "tokens": st["stage"], "detail": str(e)}
    except AssertionError:
        raise
    except BaseException as e:  # noqa: BLE001
        return {"outcome": ["Raised", type(e).__name__], "tokens": st["stage"], "replies": st["replies"]}


def main():
    req = json.load(sys.stdin)
    out = []
    for c in req["cases"]:
        try:
            t = run_case(c)
            if req.get("e2e", True) and "client_nonce" in t:
                t["e2e"] = {}
                for hv in (1, 0):
                    try:
                        t["e2e"][str(hv)] = asyncio.run(run_e2e(c, hv, t["client_nonce"]))
                    except Exception as e:  # noqa: BLE001
                        t["e2e"][str(hv)] = {"driver_error": f"{type(e).__name__}: {e}"}
            out.append(t)
            continue
        except Exception as e:  # noqa: BLE001  (driver problem, not a client exception)
            out.append({"driver_error": f"{type(e).__name__}: {e}"})
            continue
        try:
            out.append(run_case(c))
        except Exception as e:  # noqa: BLE001  (driver problem, not a client exception)
            out.append({"driver_error": f"{type(e).__name__}: {e}"})
    print(json.dumps({"results": out}))


main()
