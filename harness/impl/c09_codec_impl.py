"""C09: compression codecs on large and block-boundary payloads, and builder -> reader round trips of batches whose
compressed payload spans several codec blocks (the generated batches of the main correspondence are small)."""
import json
import os
import random
import sys

import aiokafka.codec as codec
from aiokafka.record.default_records import DefaultRecordBatchBuilder
from aiokafka.record.legacy_records import LegacyRecordBatchBuilder
from aiokafka.record.memory_records import MemoryRecords

req = json.load(sys.stdin)
PAIRS = {"gzip": (codec.has_gzip, codec.gzip_encode, codec.gzip_decode),
         "snappy": (codec.has_snappy, codec.snappy_encode, codec.snappy_decode),
         "lz4": (codec.has_lz4, codec.lz4_encode, codec.lz4_decode),
         "zstd": (codec.has_zstd, codec.zstd_encode, codec.zstd_decode)}
CODEC_ID = {"gzip": 1, "snappy": 2, "lz4": 3, "zstd": 4}


def payload(rng, n, shape):
    if shape == "random":
        return rng.randbytes(n)
    if shape == "zeros":
        return bytes(n)
    if shape == "mixed":            # incompressible and compressible stretches alternate
        out = bytearray()
        while len(out) < n:
            k = min(n - len(out), rng.choice([1, 100, 4096, 32768, 40000]))
            out += rng.randbytes(k) if rng.random() < 0.5 else bytes([rng.randrange(256)]) * k
        return bytes(out)
    return (b"abcdefgh" * (n // 8 + 1))[:n]


def run(case):
    rng = random.Random(case["seed"])
    name = case["codec"]
    has, enc, dec = PAIRS[name]
    if not has():
        return {"skipped": True}
    data = payload(rng, case["n"], case["shape"])
    out = {"codec": name, "n": case["n"], "shape": case["shape"]}
    try:
        e = enc(data)
        d = dec(e)
        out["roundtrip"] = bytes(d) == data
        out["encoded_len"] = len(e)
    except Exception as ex:  # noqa: BLE001
        out["roundtrip"] = False
        out["exc"] = type(ex).__name__ + ": " + str(ex)[:120]
    # through a batch: a few records whose values are slices of the payload
    for magic in case.get("magics", [2, 1]):
        key = f"batch_v{magic}"
        if magic < 2 and name == "zstd":
            continue
        try:
            k = max(1, len(data) // 3)
            vals = [data[i:i + k] for i in range(0, len(data), k)] or [b""]
            if magic == 2:
                b = DefaultRecordBatchBuilder(magic=2, compression_type=CODEC_ID[name], is_transactional=0,
                                              producer_id=-1, producer_epoch=-1, base_sequence=-1,
                                              batch_size=1 << 30)
                for i, v in enumerate(vals):
                    b.append(i, 1000 + i, b"k%d" % i, v, [])
            else:
                b = LegacyRecordBatchBuilder(magic=1, compression_type=CODEC_ID[name], batch_size=1 << 30)
                for i, v in enumerate(vals):
                    b.append(i, 1000 + i, b"k%d" % i, v)
            raw = bytes(b.build())
            got = []
            mr = MemoryRecords(raw)
            while mr.has_next():
                batch = mr.next_batch()
                for r in batch:
                    got.append(bytes(r.value))
            out[key] = got == vals
            if got != vals:
                out[key + "_detail"] = f"{len(got)} records back of {len(vals)}"
        except Exception as ex:  # noqa: BLE001
            out[key] = False
            out[key + "_detail"] = type(ex).__name__ + ": " + str(ex)[:120]
    return out


print(json.dumps({"out": [run(c) for c in req["cases"]],
                  "classes": [MemoryRecords.__module__, DefaultRecordBatchBuilder.__module__]}))
