"""Real TransactionManager.increment_sequence_number on (start, increment) pairs."""
import asyncio
import json
import sys

from aiokafka.producer.transaction_manager import TransactionManager
from aiokafka.structs import TopicPartition

req = json.load(sys.stdin)
tp = TopicPartition("t", 0)


async def main():
    out = []
    for s, n in req["pairs"]:
        tm = TransactionManager(None, 1000)
        tm._sequence_numbers[tp] = s
        try:
            tm.increment_sequence_number(tp, n)
            out.append(tm.sequence_number(tp))
        except Exception as e:  # noqa: BLE001
            out.append("EXN:" + type(e).__name__)
    return out

print(json.dumps({"out": asyncio.run(main())}))
