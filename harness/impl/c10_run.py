"""Run the real record decoders on a list of byte strings; one JSON result line per case.

usage: c10_run.py <cases.json> <out.jsonl> <impl> [start_index]
  impl = "cy"  : compiled classes (aiokafka.record._crecords.*) — meant to run under ASan
  impl = "py"  : pure-Python classes (_MemoryRecordsPy, ...; AIOKAFKA_NO_EXTENSIONS=1)

cases.json: {"cases": [{"id":..., "hex":..., "mode": "mr"|"dflt"|"legacy", "magic": int,
                        "validate": bool, "foreign": bool}, ...], "per_case_timeout": seconds}
Result lines are appended and flushed one by one, preceded by a {"begin": id} marker, so the
parent can tell which case killed / hung the process.  No result is ever computed here:
this script only observes (records yielded, exception type, codec calls).
"""
import ctypes
import gc
import json
import os
import signal
import sys


class CaseTimeout(BaseException):
    pass


def _alarm(signum, frame):
    raise CaseTimeout()


def hx(b):
    return None if b is None else bytes(b).hex()


def main():
    cases_path, out_path, impl = sys.argv[1:4]
    start = int(sys.argv[4]) if len(sys.argv) > 4 else 0
    with open(cases_path) as f:
        doc = json.load(f)
    cases = doc["cases"]
    tmo = float(doc.get("per_case_timeout", 2.0))
    out = open(out_path, "a")

    def emit(o):
        out.write(json.dumps(o) + "\n")
        out.flush()

    from aiokafka.errors import CorruptRecordException

    last_codec_exc = [None]
    asan_log = os.environ.get("C10_ASAN_LOG")

    def log_size():
        if not asan_log:
            return 0
        try:
            return os.stat(f"{asan_log}.{os.getpid()}").st_size
        except OSError:
            return 0

    def wrap(name, fn):
        def w(payload, *a, **k):
            pb = bytes(payload)
            emit({"codec_enter": name})
            try:
                r = fn(payload, *a, **k)
            except BaseException as e:  # noqa: BLE001
                emit({"codec": [name, pb.hex(), "raise:" + type(e).__name__]})
                last_codec_exc[0] = e
                raise
            emit({"codec": [name, pb.hex(), "ok:" + bytes(r).hex()]})
            return r
        return w

    if impl == "cy":
        from aiokafka.record._crecords import default_records as dm
        from aiokafka.record._crecords import legacy_records as lm
        from aiokafka.record._crecords import memory_records as mm
        MR, DB, LB = mm.MemoryRecords, dm.DefaultRecordBatch, lm.LegacyRecordBatch
        mods = [dm, lm]
        assert dm.__file__.endswith(".so") and mm.__file__.endswith(".so")
    else:
        assert os.environ.get("AIOKAFKA_NO_EXTENSIONS")
        from aiokafka.record import default_records as dm
        from aiokafka.record import legacy_records as lm
        from aiokafka.record import memory_records as mm
        MR, DB, LB = mm._MemoryRecordsPy, dm._DefaultRecordBatchPy, lm._LegacyRecordBatchPy
        assert mm.DefaultRecordBatch is DB and mm.LegacyRecordBatch is LB
        mods = [dm, lm]
    for m in mods:
        for nm in ("gzip_decode", "snappy_decode", "lz4_decode", "zstd_decode"):
            if hasattr(m, nm):
                setattr(m, nm, wrap(nm.split("_")[0], getattr(m, nm)))

    libc = ctypes.CDLL(None)
    libc.malloc.restype = ctypes.c_void_p
    libc.malloc.argtypes = [ctypes.c_size_t]
    libc.free.argtypes = [ctypes.c_void_p]

    def canon(r):
        hs = []
        for k, v in (r.headers or []):
            hs.append([k.encode("utf-8", "surrogatepass").hex() if isinstance(k, str) else hx(k), hx(v)])
        return [r.offset, r.timestamp, r.timestamp_type, hx(r.key), hx(r.value), hs,
                getattr(r, "checksum", None)]

    def drive_batch(b, validate, recs):
        if validate:
            ok = b.validate_crc()
            pre_crc.append(bool(ok))
            if not ok:
                raise CorruptRecordException("Invalid CRC")
        else:
            try:
                pre_crc.append(bool(b.validate_crc()))
            except Exception as e:  # noqa: BLE001
                pre_crc.append("raise:" + type(e).__name__)
        try:
            for r in b:
                recs.append(canon(r))
        finally:
            # the checksum verdict stays available after the batch was iterated (completely or up to an error):
            # asking again must neither crash nor read outside the buffer, nor turn an invalid batch into a valid one
            try:
                post_crc.append(bool(b.validate_crc()))
            except BaseException as e:  # noqa: BLE001
                post_crc.append("raise:" + type(e).__name__)

    post_crc = []
    pre_crc = []
    signal.signal(signal.SIGPROF, _alarm)   # CPU-time limit: immune to a loaded machine
    pending_free = []
    emit({"hello": impl, "pid": os.getpid(), "start": start})
    for idx in range(start, len(cases)):
        c = cases[idx]
        emit({"begin": c["id"], "idx": idx})
        if c.get("selftest"):
            # deliberate 2-byte over-read of a malloc'ed block through an intercepted memcpy:
            # must produce an ASan report (proves the sanitizer is live in this process)
            p = libc.malloc(13)
            try:
                ctypes.string_at(p + 12, 3)
            finally:
                libc.free(p)
            emit({"id": c["id"], "idx": idx, "status": "selftest-done", "recs": [], "asan_log_end": log_size()})
            continue
        data = bytes.fromhex(c["hex"])
        recs = []
        del post_crc[:]
        del pre_crc[:]
        last_codec_exc[0] = None
        ptr = None
        status = None
        nbatches = 0
        signal.setitimer(signal.ITIMER_PROF, tmo)
        try:
            try:
                if c["mode"] == "mr":
                    mr = MR(data)
                    while mr.has_next():
                        b = mr.next_batch()
                        nbatches += 1
                        drive_batch(b, c["validate"], recs)
                        b = None
                    mr = None
                else:
                    if c.get("foreign"):
                        n = len(data)
                        ptr = libc.malloc(n)
                        ctypes.memmove(ptr, data, n)
                        buf = (ctypes.c_char * n).from_address(ptr)
                    else:
                        buf = data
                    if c["mode"] == "dflt":
                        b = DB(buf)
                    else:
                        b = LB(buf, c["magic"])
                    nbatches = 1
                    drive_batch(b, c["validate"], recs)
                    b = None
                status = "done"
            finally:
                signal.setitimer(signal.ITIMER_PROF, 0)
        except CaseTimeout:
            status = "timeout"
        except BaseException as e:  # noqa: BLE001
            nm = type(e).__name__
            if type(e).__module__ not in ("builtins", "aiokafka.errors"):
                nm = type(e).__module__ + "." + nm
            if e is last_codec_exc[0]:
                nm = "codec:" + type(e).__name__
            status = "raise:" + nm
            msg = str(e)[:160]
            e = None
        else:
            msg = ""
        b = mr = buf = None
        if ptr is not None:
            pending_free.append(ptr)
        if len(pending_free) >= 256:
            # the foreign blocks are released in bulk, after a full collection, so that no batch
            # object can still point into them
            gc.collect()
            for q in pending_free:
                libc.free(q)
            del pending_free[:]
        emit({"id": c["id"], "idx": idx, "status": status, "recs": recs, "post_crc": list(post_crc), "pre_crc": list(pre_crc),
              "msg": msg if status.startswith("raise") else "", "nbatches": nbatches,
              "asan_log_end": log_size()})
    emit({"bye": True})


main()
