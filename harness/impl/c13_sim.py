"""Runs start-position scenarios under the simulator for C13 (group and group-less consumers).
Executed by /venv/bin/python with PYTHONPATH=/repo, AIOKAFKA_NO_EXTENSIONS=1.
stdin {"scenarios": [...]}, stdout last line {"results": [...]}.

Scenario:
  {"id", "seed", "brokers", "partitions", "iso": 0|1, "policy": "earliest"|"latest"|"none",
   "mode": "group" (group_id + subscribe) | "group_assign" (group_id + assign) | "assign" (no group),
   "logs": {"<p>": [ops (c03_loggen)]}, "log_start": {"<p>": offset},
   "committed": {"<p>": offset}  (stored in the simulated group coordinator before start),
   "api_ranges": {"<api key>": [lo, hi]},
   "faults": {"<ordinal among ListOffsets/OffsetFetch/FindCoordinator/Fetch/Metadata after assignment>": fault},
   "latency": [lo, hi], "migrations": [...], "log_start_moves": [...],
   "inject": {"at": k, "p": partition, "kind": "seek"|"seek_beg"|"seek_end", "to": offset} | None
        — the user call lands at the first scheduling point after the k-th start-position event
          of partition p (count them with a base run: result["n_events"][p]),
   "consume": n records to read afterwards, "drain": seconds}
"""
import asyncio
import json
import os
import sys
import traceback

sys.path.insert(0, os.path.join(os.path.dirname(os.path.abspath(__file__)), ".."))
sys.path.insert(0, os.path.dirname(os.path.abspath(__file__)))
from simkit.loop import install_virtual_time  # noqa: E402

install_virtual_time()

import c03_loggen  # noqa: E402
import c03_sim  # noqa: E402  (shared observation points)
from simkit.cluster import Fault, SimCluster  # noqa: E402
from simkit.loop import SimDeadlock, run_sim  # noqa: E402

import aiokafka.consumer.fetcher as F  # noqa: E402
import aiokafka.consumer.group_coordinator as GC  # noqa: E402
import aiokafka.consumer.subscription_state as SS  # noqa: E402
from aiokafka import AIOKafkaConsumer  # noqa: E402
from aiokafka.structs import TopicPartition  # noqa: E402

# start-position events (the ones an injected user call is placed after)
SP_EVENTS = ("c_assigned", "c_committed_req", "c_lookup_sent", "c_lookup_err", "c_lookup_ok", "c_committed_resp",
             "c_lo_sent", "c_lo_resp", "c_lo_err", "c_await_reset", "c_reset_to", "c_set_error",
             "c_fetch_sent_oor")     # a Fetch sent at an offset outside the log: its reply will be OFFSET_OUT_OF_RANGE
HOOK = {"fn": None}


def ev(kind, **kw):
    cl = c03_sim.CL
    if cl is None:
        return
    cl.ev(kind, **kw)
    if HOOK["fn"] is not None and kind in SP_EVENTS:
        HOOK["fn"](kind, kw)


def install_wrappers():
    c03_sim.install_wrappers()
    o_assign_init = SS.Assignment.__init__
    o_fetch_committed = SS.TopicPartitionState.fetch_committed
    o_update_committed = SS.TopicPartitionState.update_committed
    o_do_fetch = GC.GroupCoordinator._do_fetch_commit_offsets
    o_proc_offset = F.Fetcher._proc_offset_request
    # the C03 wrappers log through cluster.ev; route the start-position ones through the hook too
    w_reset_to = SS.TopicPartitionState.reset_to
    w_await_reset = SS.TopicPartitionState.await_reset
    w_set_error = F.Fetcher._set_error

    def tp_of(state):
        for tp, st in state._assignment._tp_state.items():
            if st is state:
                return tp
        return None

    def assignment_init(self, topic_partitions):
        o_assign_init(self, topic_partitions)
        for tp in sorted(self._topic_partitions):
            ev("c_assigned", p=tp.partition)

    def fetch_committed(self):
        fut = o_fetch_committed(self)
        tp = tp_of(self)
        ev("c_committed_req", p=tp.partition)

        async def waiter():
            r = await fut
            ev("c_committed_resp", p=tp.partition, c=None if r.offset == -1 else r.offset)
            return r
        return waiter()

    def update_committed(self, offset_meta):
        tp = tp_of(self)
        if self._committed_futs:
            ev("c_lookup_ok", p=tp.partition, c=None if offset_meta.offset == -1 else offset_meta.offset,
               waiters=len(self._committed_futs))
        return o_update_committed(self, offset_meta)

    async def _do_fetch_commit_offsets(self, partitions):
        parts = sorted(tp.partition for tp in partitions)
        waiting = []
        try:
            asg = self._subscription.subscription.assignment
            waiting = [tp.partition for tp in asg.requesting_committed()] if asg is not None else []
        except Exception:  # noqa: BLE001
            pass
        for p in parts:
            if p in waiting:
                ev("c_lookup_sent", p=p)
        try:
            return await o_do_fetch(self, partitions)
        except BaseException as e:  # noqa: BLE001
            for p in parts:
                if p in waiting:
                    ev("c_lookup_err", p=p, exc=type(e).__name__, retriable=bool(getattr(e, "retriable", False)))
            raise

    async def _proc_offset_request(self, node_id, topic_data):
        items = [(part, strat) for topic, parts in topic_data.items() for (part, strat) in parts]
        for part, strat in items:
            ev("c_lo_sent", p=part, strategy=strat, node=node_id)
        try:
            res = await o_proc_offset(self, node_id, topic_data)
        except BaseException as e:  # noqa: BLE001
            for part, strat in items:
                ev("c_lo_err", p=part, strategy=strat, exc=type(e).__name__)
            raise
        for part, strat in items:
            v = res.get(TopicPartition("t", part))
            ev("c_lo_resp", p=part, strategy=strat, off=None if v is None else v[0])
        return res

    def reset_to(self, position):
        r = w_reset_to(self, position)
        if HOOK["fn"] is not None:
            tp = tp_of(self)
            HOOK["fn"]("c_reset_to", {"p": tp.partition, "o": position})
        return r

    def await_reset(self, strategy):
        r = w_await_reset(self, strategy)
        if HOOK["fn"] is not None:
            tp = tp_of(self)
            HOOK["fn"]("c_await_reset", {"p": tp.partition})
        return r

    def _set_error(self, tp, error):
        r = w_set_error(self, tp, error)
        if HOOK["fn"] is not None:
            HOOK["fn"]("c_set_error", {"p": tp.partition})
        return r

    SS.Assignment.__init__ = assignment_init
    SS.TopicPartitionState.fetch_committed = fetch_committed
    SS.TopicPartitionState.update_committed = update_committed
    GC.GroupCoordinator._do_fetch_commit_offsets = _do_fetch_commit_offsets
    F.Fetcher._proc_offset_request = _proc_offset_request
    SS.TopicPartitionState.reset_to = reset_to
    SS.TopicPartitionState.await_reset = await_reset
    F.Fetcher._set_error = _set_error


def run_scenario(sc):
    import random
    rng = random.Random(sc.get("seed", 0))
    out = {"id": sc["id"], "ok": True}
    nparts = sc.get("partitions", 1)
    late_ops = []
    gid = "g" if sc.get("mode", "assign") in ("group", "group_assign") else None

    def mk(loop):
        c = SimCluster(loop, n_brokers=sc.get("brokers", 1), rng=rng)
        c.add_topic("t", nparts)
        for k, (lo, hi) in (sc.get("api_ranges") or {}).items():
            c.api_ranges[int(k)] = (lo, hi)
        for p in range(nparts):
            for op in (sc.get("logs") or {}).get(str(p), []):
                if op.get("at") is None:
                    c03_loggen.apply_op(c, "t", p, op)
                else:
                    late_ops.append((op["at"], p, op))
        for p, v in (sc.get("log_start") or {}).items():
            c.log("t", int(p)).log_start = v
        for p, v in (sc.get("committed") or {}).items():
            c.gc.group("g").offsets[("t", int(p))] = (v, "")
        lat = sc.get("latency", [0.001, 0.004])
        api_lat = sc.get("api_latency") or {}      # e.g. {"OffsetFetch": 0.2}: one slow kind of request
        c.latency = lambda node, api: api_lat[api] if api in api_lat else lat[0] + (lat[1] - lat[0]) * rng.random()
        faults = {int(k): v for k, v in (sc.get("faults") or {}).items()}
        counter = {"n": 0}
        per_api = {}
        apis = ("ListOffsets", "OffsetFetch", "FindCoordinator", "Fetch", "Metadata")

        def fault_for(info):
            if info["api"] not in apis or not counter.get("on"):
                return None
            counter["n"] += 1
            f = faults.get(counter["n"])
            # "api_faults": {"ListOffsets": [fault for its 1st request, 2nd, ...]} - faults aimed at one API
            per_api[info["api"]] = per_api.get(info["api"], 0) + 1
            lst = (sc.get("api_faults") or {}).get(info["api"]) or []
            if f is None and per_api[info["api"]] <= len(lst):
                f = lst[per_api[info["api"]] - 1]
            if f is None:
                return None
            kind, code = f["kind"], f.get("code", 0)
            if kind == "error":
                # an error code that makes sense for the API hit
                if info["api"] == "Metadata":
                    return None
                if info["api"] == "OffsetFetch":
                    code = code if code in (14, 15, 16) else 14
                    if info["version"] < 2 and code == 15:
                        code = 16      # (a per-partition 15 is turned into a fatal KafkaError: reported, not explored)
                elif info["api"] == "FindCoordinator":
                    code = code if code in (14, 15, 16) else 15
                else:
                    code = code if code in (3, 5, 6, 7) else 6
            return Fault(kind, code, f.get("delay", 0.0))
        c.fault_for = fault_for
        c.fault_counter = counter

        def on_request(info):
            if info["api"] == "ListOffsets":
                for t in info["req"]["topics"]:
                    for pp in t["partitions"]:
                        lg = c.log("t", pp["partition"])
                        c.ev("env_list_offsets", p=pp["partition"], ts=pp["timestamp"], log_start=lg.log_start,
                             hw=lg.high_watermark, lso=lg.lso, iso=info["req"].get("isolation_level", 0),
                             version=info["version"], leader=lg.leader, node=info["node"],
                             fault=info["event"]["fault"])
            if info["api"] == "OffsetFetch":
                c.ev("env_offset_fetch", node=info["node"], fault=info["event"]["fault"],
                     stored={str(k[1]): v[0] for k, v in c.gc.group("g").offsets.items()})
        c.on_request = on_request
        if sc.get("kafka_offset_fetch_errors", True):
            # What Kafka does since OffsetFetch v2 (OffsetFetchRequest.getErrorResponse): a group-level
            # error (coordinator loading / not coordinator / not available) is reported in the
            # top-level error_code and the response carries NO partitions.
            o_offset_fetch = c.gc.offset_fetch
            o_error_reply = c.error_reply

            def offset_fetch(node, cls, obj, info):
                resp = o_offset_fetch(node, cls, obj, info)
                if cls.API_VERSION >= 2 and isinstance(resp, dict) and resp.get("error_code"):
                    c.ev("env_offset_fetch_error", version=cls.API_VERSION, code=resp["error_code"], top_level_only=True)
                    resp = {"topics": [], "error_code": resp["error_code"]}
                elif isinstance(resp, dict) and resp.get("error_code"):
                    c.ev("env_offset_fetch_error", version=cls.API_VERSION, code=resp["error_code"], top_level_only=False)
                return resp

            def error_reply(name, cls, obj, code):
                if name == "OffsetFetch" and cls.API_VERSION >= 2:
                    c.ev("env_offset_fetch_error", version=cls.API_VERSION, code=code, top_level_only=True)
                    return {"topics": [], "error_code": code}
                if name == "OffsetFetch":
                    c.ev("env_offset_fetch_error", version=cls.API_VERSION, code=code, top_level_only=False)
                return o_error_reply(name, cls, obj, code)
            c.gc.offset_fetch = offset_fetch
            c.error_reply = error_reply
        return c

    async def scenario(loop, net):
        c03_sim.CL = net
        c03_sim.TASKS.clear()
        t_start = loop.time()
        for (at, p, op) in late_ops:
            loop.call_later(at, lambda p=p, op=op: c03_loggen.apply_op(net, "t", p, op))
        for m in sc.get("migrations") or []:
            def mig(m=m):
                net.log("t", m["partition"]).leader = m["to"]
                net.ev("leader_change", partition=m["partition"], to=m["to"])
            loop.call_later(m["at"], mig)
        for m in sc.get("leaderless") or []:
            # the partition has no leader for a while: its start position is looked up later than the others'
            def off(m=m):
                lg = net.log("t", m["partition"])
                old = lg.leader
                lg.leader = -1
                net.ev("leader_change", partition=m["partition"], to=-1)

                def on():
                    lg.leader = old
                    net.ev("leader_change", partition=m["partition"], to=old)
                loop.call_later(m["for"], on)
            if m["at"] <= 0:
                off()
            else:
                loop.call_later(m["at"], off)
        for m in sc.get("log_start_moves") or []:
            def mv(m=m):
                lg = net.log("t", m["partition"])
                lg.log_start = max(lg.log_start, min(m["to"], lg.next_offset))
                net.ev("log_start_move", partition=m["partition"], to=lg.log_start)
            loop.call_later(m["at"], mv)
        for m in sc.get("coord_loading") or []:
            def load_on(m=m):
                net.gc.loading = True
                net.ev("coordinator_loading", on=True)

                def load_off():
                    net.gc.loading = False
                    net.ev("coordinator_loading", on=False)
                loop.call_later(m["for"], load_off)
            if m["at"] <= 0:
                load_on()
            else:
                loop.call_later(m["at"], load_on)
        for m in sc.get("coord_moves") or []:
            loop.call_later(m["at"], lambda m=m: net.gc.move(m["to"], m.get("keep_state", True)))
        tps = [TopicPartition("t", p) for p in range(nparts)]
        kw = dict(bootstrap_servers=net.bootstrap(), enable_auto_commit=False,
                  auto_offset_reset=sc.get("policy", "earliest"),
                  isolation_level="read_committed" if sc.get("iso") else "read_uncommitted",
                  fetch_max_wait_ms=sc.get("fetch_max_wait_ms", 100),
                  request_timeout_ms=sc.get("request_timeout_ms", 1500),
                  retry_backoff_ms=sc.get("retry_backoff_ms", 50),
                  metadata_max_age_ms=sc.get("metadata_max_age_ms", 5000),
                  session_timeout_ms=10000, heartbeat_interval_ms=1000)
        if gid:
            kw["group_id"] = gid
        consumer = AIOKafkaConsumer(**kw)
        inj = sc.get("inject")
        count = {p: 0 for p in range(nparts)}
        injected = {"done": False}
        pending = []

        def do_inject():
            tp = TopicPartition("t", inj["p"])
            try:
                if inj["kind"] == "seek":
                    consumer.seek(tp, inj["to"])
                    net.ev("a_seek", task=-2, p=inj["p"], o=inj["to"])
                elif inj["kind"] == "seek_committed":
                    async def call_sc():
                        try:
                            got = await consumer.seek_to_committed(tp)
                            off = got.get(tp)
                            pos = await asyncio.wait_for(consumer.position(tp), 5.0)
                            net.ev("a_seek_committed", task=-2, p=inj["p"], committed=off, position=pos)
                        except Exception as e:  # noqa: BLE001
                            net.ev("a_exc", task=-2, op="seek_committed", exc=type(e).__name__, msg=str(e)[:200])
                    pending.append(asyncio.ensure_future(call_sc()))
                else:
                    fn = consumer.seek_to_beginning if inj["kind"] == "seek_beg" else consumer.seek_to_end

                    async def call():
                        try:
                            ok = await fn(tp)
                            net.ev("a_" + inj["kind"], task=-2, p=inj["p"], done=bool(ok))
                        except Exception as e:  # noqa: BLE001
                            net.ev("a_exc", task=-2, op=inj["kind"], exc=type(e).__name__, msg=str(e)[:200])
                    pending.append(asyncio.ensure_future(call()))
            except Exception as e:  # noqa: BLE001
                net.ev("a_exc", task=-2, op=inj["kind"], exc=type(e).__name__, msg=str(e)[:200])

        def hook(kind, kwv):
            p = kwv.get("p")
            if p is None:
                return
            count[p] = count.get(p, 0) + 1
            if inj and not injected["done"] and not injected.get("scheduled") and p == inj["p"] and (
                    count[p] == inj.get("at") or (inj.get("after_kind") == kind)):
                net.ev("inject_scheduled", p=p, after=kind, index=count[p])
                if inj.get("delay"):
                    injected["scheduled"] = True

                    def later():
                        do_inject()
                        injected["done"] = True
                    loop.call_later(inj["delay"], later)     # let the application consume something first
                else:
                    injected["done"] = True
                    loop.call_soon(do_inject)
        HOOK["fn"] = hook

        def fetch_sent(p, o):
            lg = net.log("t", p)
            if o < lg.log_start or o > lg.next_offset:
                hook("c_fetch_sent_oor", {"p": p})
        c03_sim.FETCH_SENT_HOOK["fn"] = fetch_sent
        net.fault_counter["on"] = True
        if sc.get("mode") == "group":
            consumer.subscribe(["t"])
        else:
            consumer.assign(tps)
        try:
            await asyncio.wait_for(consumer.start(), timeout=sc.get("start_within", 120.0))
        except Exception as e:  # noqa: BLE001
            # start() may legitimately fail under faults (metadata timing out ...): nothing to observe
            out["start_exc"] = type(e).__name__
            HOOK["fn"] = None
            try:
                await asyncio.wait_for(consumer.stop(), timeout=30.0)
            except Exception:  # noqa: BLE001
                pass
            c03_sim.CL = None
            return out
        c03_sim.TASKS[asyncio.current_task()] = 0
        net.ev("started")

        def rec_json(m):
            return {"p": m.partition, "o": m.offset, "k": (m.key or b"").decode("latin1"),
                    "v": (m.value or b"").decode("latin1")}
        # the application: ask every position, then read a few records
        first_pos = {}
        excs = []
        deadline = loop.time() + sc.get("drain", 30.0)
        want = sc.get("consume", 3)
        got = {p: 0 for p in range(nparts)}
        blocking = sc.get("app") == "getone_blocking"
        while loop.time() < deadline:
            try:
                if blocking:
                    # a caller parked in getone(): whatever error is buffered for a partition has to wake it
                    net.ev("a_block_begin", task=0)
                    try:
                        m = await asyncio.wait_for(consumer.getone(), timeout=sc.get("block_timeout", 6.0))
                    except asyncio.TimeoutError:
                        net.ev("a_block_timeout", task=0)
                        break
                    r = {TopicPartition(m.topic, m.partition): [m]}
                else:
                    r = await consumer.getmany(timeout_ms=100, max_records=1)
                for tp, ms in r.items():
                    net.ev("a_getmany", task=0, parts=[], mx=1, recs={str(tp.partition): [rec_json(m) for m in ms]})
                    got[tp.partition] += len(ms)
            except Exception as e:  # noqa: BLE001
                net.ev("a_exc", task=0, op="getmany", exc=type(e).__name__, msg=str(e)[:200])
                excs.append(type(e).__name__)
                if len(excs) >= sc.get("max_excs", 3):
                    break
            done = True
            asg = consumer._subscription.subscription.assignment if consumer._subscription.subscription else None
            for tp in tps:
                st = asg.state_value(tp) if asg is not None else None
                if st is None:
                    done = False
                    continue
                if st._position is not None and tp.partition not in first_pos:
                    first_pos[tp.partition] = st._position
                lg = net.log("t", tp.partition)
                bound = lg.lso if sc.get("iso") else lg.high_watermark
                if st._position is None or (got[tp.partition] < want and st._position < bound):
                    done = False
            if done and (not inj or injected["done"]) and not any(not t.done() for t in pending):
                break
        net.fault_counter["on"] = False
        # the application stopped polling (e.g. after repeated NoOffsetForPartitionError of ANOTHER partition): give
        # lookups that are still in flight (a reset / seek_to_* awaiting its ListOffsets reply) time to complete
        # before the final snapshot - the fetcher works in the background whether or not the application polls
        for _ in range(100):
            asg = consumer._subscription.subscription.assignment if consumer._subscription.subscription else None
            if asg is None or not any(asg.state_value(tp)._position is None and asg.state_value(tp)._reset_strategy is not None
                                      for tp in tps if asg.state_value(tp) is not None):
                break
            await asyncio.sleep(0.05)
        for t in pending:
            if not t.done():
                try:
                    await asyncio.wait_for(t, timeout=5.0)
                except Exception:  # noqa: BLE001
                    pass
        final = {}
        asg = consumer._subscription.subscription.assignment if consumer._subscription.subscription else None
        for tp in tps:
            st = asg.state_value(tp) if asg is not None else None
            final[str(tp.partition)] = {"pos": None if st is None else st._position,
                                        "awaiting": None if st is None else st._reset_strategy}
            net.ev("a_final", p=tp.partition, pos=None if st is None else st._position, paused=False)
        out["final"] = final
        out["excs"] = excs
        out["n_events"] = {str(p): count.get(p, 0) for p in range(nparts)}
        out["injected"] = injected["done"]
        out["fetch_task_done"] = consumer._fetcher._fetch_task.done() if consumer._fetcher else None
        HOOK["fn"] = None
        c03_sim.CL = None          # the observation ends with the final snapshot (stop() is C19's business)
        try:
            await asyncio.wait_for(consumer.stop(), timeout=60.0)
            out["stopped"] = True
        except asyncio.TimeoutError:
            out["stopped"] = False
        gt = {}
        iso = 1 if sc.get("iso") else 0
        for p in range(nparts):
            lg = net.log("t", p)
            batches, recs, bound = c03_loggen.ground_truth(lg, iso)
            gt[str(p)] = {"batches": batches, "records": {str(k): v for k, v in recs.items()}, "bound": bound,
                          "log_start": lg.log_start, "hw": lg.high_watermark, "lso": lg.lso,
                          "committed": (net.gc.group("g").offsets.get(("t", p)) or [None])[0] if gid else None}
        out["truth"] = gt
        keep = ("c_", "a_", "env_")
        out["trace"] = [e for e in net.trace if e["ev"].startswith(keep) or e["ev"] in (
            "leader_change", "started", "log_start_move", "inject_scheduled", "list_offsets", "offset_fetch",
            "coordinator_loading", "coordinator_move")
            or (e["ev"] == "request" and e.get("fault"))]
        if sc.get("full_trace"):
            out["full_trace"] = [{k: v for k, v in e.items() if k != "cls"} for e in net.trace]
        out["vtime"] = loop.time() - t_start
        c03_sim.CL = None
        return out

    try:
        return run_sim(scenario, mk, max_vtime=sc.get("max_vtime", 3600.0), seed=sc.get("seed", 0))
    except SimDeadlock as e:
        c03_sim.CL = None
        HOOK["fn"] = None
        return {"id": sc["id"], "ok": False, "error": "SimDeadlock: " + str(e)}
    except Exception as e:  # noqa: BLE001
        c03_sim.CL = None
        HOOK["fn"] = None
        return {"id": sc["id"], "ok": False, "error": type(e).__name__ + ": " + str(e),
                "tb": traceback.format_exc()[-2000:]}


def main():
    req = json.load(sys.stdin)
    install_wrappers()
    results = [run_scenario(sc) for sc in req["scenarios"]]
    print(json.dumps({"results": results}, default=lambda o: o.decode("latin1") if isinstance(o, bytes) else str(o)))


if __name__ == "__main__":
    import logging
    logging.disable(logging.CRITICAL)
    main()
