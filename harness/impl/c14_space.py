"""C14/C15 — input spaces and naming, shared by the harness (system python) and the impl
runner (/venv python).  Pure Python, imports nothing from /repo.

A case is a dict
    {"ppt": [None | n, ...]            partition count per topic id (None = no metadata),
     "members": [[id, [topic ids]], ...]   in dict (insertion) order, subscription as listed,
     "claims": [None | [generation, [[t, p], ...]], ...]   per member, previous assignment (sticky)}
Topic i is named "t%02d" % i, member j "C%02d" % j: string order == numeric order, which is
the order the Gallina models use."""
import itertools


def tname(i):
    return "t%02d" % i


def mname(j):
    return "C%02d" % j


def tid(s):
    return int(s[1:])


def mid(s):
    return int(s[1:])


PART_OPTS = [None, 0, 1, 2, 3, 4]


def subsets(T):
    return [list(s) for r in range(1, T + 1) for s in itertools.combinations(range(T), r)]


def layouts(T):
    return [list(l) for l in itertools.product(PART_OPTS, repeat=T)]


def space_size(T, M):
    """number of cases in one block (one layout): every non-empty subscription per member"""
    return (2 ** T - 1) ** M


def space_blocks(max_t, max_m):
    """The bounded space of the property as a list of blocks (T, M, layout index); a block is
    every choice of one non-empty subscription per member for that layout."""
    out = []
    for T in range(1, max_t + 1):
        nl = len(PART_OPTS) ** T
        for M in range(1, max_m + 1):
            for li in range(nl):
                out.append((T, M, li))
    return out


def block_cases(T, M, li):
    lay = layouts(T)[li]
    ss = subsets(T)
    for combo in itertools.product(ss, repeat=M):
        yield {"ppt": lay, "members": [[j, list(combo[j])] for j in range(M)]}


def case_key(case):
    return (tuple(case["ppt"]), tuple((m, tuple(s)) for m, s in case["members"]),
            tuple(None if c is None else (c[0], tuple(map(tuple, c[1]))) for c in case.get("claims") or ()))


# ------------------------------------------------------------------------------ C15
def identical_sets(members):
    return len({frozenset(s) for _, s in members}) <= 1


def second_rounds(case):
    """The second rounds of C15's quantifier for one first-round input:
    ("same", members) always; when all members subscribe to the same topics also
    ("minus", survivors, gone) for every non-empty proper subset of members that leaves and
    ("plus", members + k new, k) for k = 1, 2 (new members subscribe like the others)."""
    members = case["members"]
    yield ("same", [list(m) for m in members], None)
    if not identical_sets(members):
        return
    ids = [m for m, _ in members]
    for r in range(1, len(ids)):
        for gone in itertools.combinations(ids, r):
            yield ("minus", [list(m) for m in members if m[0] not in gone], list(gone))
    nxt = max(ids) + 1
    for k in (1, 2):
        new = [[nxt + j, list(members[0][1])] for j in range(k)]
        yield ("plus", [list(m) for m in members] + new, k)
