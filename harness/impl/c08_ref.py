"""C08 reference side, plain Python, independent of aiokafka and of the Coq model.

* `Log(ops)`        : the partition log a sequence of operations builds (same operation language
                      as coq/model/C08_Log.v: data batches with what compaction left of them,
                      commit/abort markers) — batches, finished/open transactions, LEO, LSO.
* writer            : every batch as real bytes in Kafka message format v2, written from the
                      format description (header struct, zig-zag varints, CRC-32C), including
                      control batches (attributes bit 5, bit 4; key = int16 version, int16 type).
* broker            : the answer to Fetch(f): batches [containing f .. cut), aborted-transaction
                      index as LogSegment.collectAbortedTxns computes it.
* reference reader  : parses bytes with its own v2 parser and classifies every transactional
                      batch by scanning the whole log for the producer's next marker; rc_view /
                      ru_view straight from the property statement.
Used by harness/c08.py (expected values, monitors) and by harness/impl/c08_impl.py (to build
the inputs handed to the real PartitionRecords).
"""
import struct
import zlib

RC = "read_committed"
RU = "read_uncommitted"

# ------------------------------------------------------------------------------------ CRC-32C
_CRC_TABLE = []


def _crc_init():
    poly = 0x82F63B78
    for i in range(256):
        c = i
        for _ in range(8):
            c = (c >> 1) ^ poly if c & 1 else c >> 1
        _CRC_TABLE.append(c)


_crc_init()


def crc32c(data: bytes) -> int:
    c = 0xFFFFFFFF
    t = _CRC_TABLE
    for b in data:
        c = t[(c ^ b) & 0xFF] ^ (c >> 8)
    return c ^ 0xFFFFFFFF


assert crc32c(b"123456789") == 0xE3069283

# ------------------------------------------------------------------------------------ varints


def enc_varint(v: int) -> bytes:
    z = (v << 1) ^ (v >> 63)
    z &= (1 << 64) - 1
    out = bytearray()
    while z > 0x7F:
        out.append(0x80 | (z & 0x7F))
        z >>= 7
    out.append(z)
    return bytes(out)


def dec_varint(buf, pos):
    shift = 0
    z = 0
    while True:
        b = buf[pos]
        pos += 1
        z |= (b & 0x7F) << shift
        if not b & 0x80:
            break
        shift += 7
    return (z >> 1) ^ -(z & 1), pos


# ------------------------------------------------------------------------------------ writer
HEADER = struct.Struct(">qiibIhiqqqhii")
ATTR_OFFSET = struct.calcsize(">qiibI")
TS0 = 1_600_000_000_000


def data_key(tag):
    # a third of the records have a null key (tombstone-style keys are irrelevant here)
    return None if tag % 3 == 0 else b"k%d" % tag


def data_value(tag):
    return None if tag % 7 == 3 else b"v%d" % tag


def enc_record(offset_delta, ts_delta, key, value, headers=()):
    body = bytearray()
    body += b"\x00"                       # attributes
    body += enc_varint(ts_delta)
    body += enc_varint(offset_delta)
    if key is None:
        body += enc_varint(-1)
    else:
        body += enc_varint(len(key)) + key
    if value is None:
        body += enc_varint(-1)
    else:
        body += enc_varint(len(value)) + value
    body += enc_varint(len(headers))
    for hk, hv in headers:
        hkb = hk.encode()
        body += enc_varint(len(hkb)) + hkb
        if hv is None:
            body += enc_varint(-1)
        else:
            body += enc_varint(len(hv)) + hv
    return enc_varint(len(body)) + bytes(body)


def enc_batch(base, last, pid, txn, ctl, recs, gzip=False, epoch=0, base_seq=0):
    """recs: [(offset, key, value)].  Base offset and last offset delta are those of the batch as
    it was appended (compaction keeps them)."""
    payload = bytearray()
    for (off, key, value) in recs:
        hdrs = (("h", b"x"),) if (off % 5 == 4 and not ctl) else ()
        payload += enc_record(off - base, off - base, key, value, hdrs)
    attrs = 0
    if gzip:
        attrs |= 1
        co = zlib.compressobj(6, zlib.DEFLATED, 31)
        payload = co.compress(bytes(payload)) + co.flush()
    if txn:
        attrs |= 0x10
    if ctl:
        attrs |= 0x20
    max_ts = TS0 + (max((o for o, _, _ in recs), default=base) - base)
    after_crc = struct.pack(">hiqqqhii", attrs, last - base, TS0, max_ts, pid, epoch,
                            base_seq if not ctl else -1, len(recs)) + bytes(payload)
    crc = crc32c(after_crc)
    length = 4 + 1 + 4 + len(after_crc)          # leader epoch, magic, crc, rest
    return struct.pack(">qiibI", base, length, 0, 2, crc) + after_crc


# ------------------------------------------------------------------------------------ the log
class Batch:
    __slots__ = ("base", "last", "pid", "txn", "ctl", "recs", "raw", "gzip")

    def __init__(self, base, last, pid, txn, ctl, recs, gzip=False):
        self.base, self.last, self.pid, self.txn, self.ctl = base, last, pid, txn, ctl
        self.recs = recs                 # [(offset, tag)]
        self.gzip = gzip
        if ctl:
            wire = [(o, struct.pack(">HH", t >> 16, t & 0xFFFF), struct.pack(">HI", 0, 7))
                    for o, t in recs]
        else:
            wire = [(o, data_key(t), data_value(t)) for o, t in recs]
        self.raw = enc_batch(base, last, pid, txn, ctl, wire, gzip=gzip)

    def to_json(self):
        return {"base": self.base, "last": self.last, "pid": self.pid, "txn": self.txn,
                "ctl": self.ctl, "recs": self.recs}


class Log:
    """ops: list of ["D", pid, txn, n, kept] with kept = None | [[delta, tag], ...]
                  | ["M", pid, commit]."""

    def __init__(self, ops):
        self.ops = ops
        self.leo = 0
        self.batches = []
        self.open = {}                   # pid -> first offset
        self.done = []                   # (pid, first, last, commit) in completion order
        for i, op in enumerate(ops):
            if op[0] == "D":
                _, pid, txn, n, kept = op[:5]
                gz = len(op) > 5 and bool(op[5])
                assert n >= 1
                if txn and pid not in self.open:
                    self.open[pid] = self.leo
                if kept is not None:
                    recs = [(self.leo + d, t) for d, t in kept]
                    self.batches.append(Batch(self.leo, self.leo + n - 1, pid, bool(txn), False,
                                              recs, gzip=gz and bool(recs)))
                self.leo += n
            else:
                _, pid, commit = op
                self.batches.append(Batch(self.leo, self.leo, pid, True, True,
                                          [(self.leo, 1 if commit else 0)]))
                if pid in self.open:
                    self.done.append((pid, self.open.pop(pid), self.leo, bool(commit)))
                self.leo += 1
        self.hw = self.leo
        self.lso = min(self.open.values(), default=self.leo)

    def bound(self, iso):
        return self.lso if iso == RC else self.hw

    # -------------------------------------------------------------- broker
    def response(self, bound, f, k):
        """indices of the batches returned for Fetch(f) cut after k batches"""
        idx = [i for i, b in enumerate(self.batches) if f <= b.last < bound]
        return idx[:k]

    def kafka_index(self, f, u):
        """aborted transactions with marker offset >= f and first offset < u, in index order
        (the transaction index is appended when the marker is written)"""
        return [[pid, first] for (pid, first, last, commit) in self.done
                if not commit and last >= f and first < u]

    def response_bytes(self, resp, trunc=0):
        raw = b"".join(self.batches[i].raw for i in resp)
        if trunc and resp and resp[-1] + 1 < len(self.batches):
            nxt = self.batches[resp[-1] + 1].raw
            raw += nxt[: max(1, min(len(nxt) - 1, trunc))]
        return raw


# ------------------------------------------------------------------------------------ reference reader
def parse_batches(raw: bytes):
    """independent parser of a concatenation of v2 batches (incomplete tail ignored)"""
    out = []
    pos = 0
    while len(raw) - pos >= 12:
        base, length = struct.unpack_from(">qi", raw, pos)
        if pos + 12 + length > len(raw):
            break
        (_, _, _, magic, crc, attrs, lod, _ts0, _ts1, pid, _epoch, _seq,
         count) = HEADER.unpack_from(raw, pos)
        assert magic == 2
        body = raw[pos + HEADER.size: pos + 12 + length]
        assert crc32c(raw[pos + ATTR_OFFSET: pos + 12 + length]) == crc
        if attrs & 7 == 1:
            body = zlib.decompress(body, 31)
        recs = []
        p = 0
        for _ in range(count):
            ln, p = dec_varint(body, p)
            end = p + ln
            p += 1
            _ts, p = dec_varint(body, p)
            od, p = dec_varint(body, p)
            kl, p = dec_varint(body, p)
            key = None
            if kl >= 0:
                key = bytes(body[p:p + kl])
                p += kl
            vl, p = dec_varint(body, p)
            value = None
            if vl >= 0:
                value = bytes(body[p:p + vl])
                p += vl
            p = end
            recs.append((base + od, key, value))
        out.append({"base": base, "last": base + lod, "pid": pid, "txn": bool(attrs & 0x10),
                    "ctl": bool(attrs & 0x20), "recs": recs})
        pos += 12 + length
    return out


def classify(log_batches):
    """For every transactional data batch of the parsed whole log: 'committed' / 'aborted' /
    'open' — decided by the next end-transaction marker of the same producer (the definition of
    transaction outcome), scanning the log backwards."""
    outcome = {}
    nxt = {}                             # pid -> outcome of the next marker seen so far
    for b in reversed(log_batches):
        if b["ctl"]:
            _ver, typ = struct.unpack(">HH", b["recs"][0][1][:4])
            nxt[b["pid"]] = "aborted" if typ == 0 else "committed"
        elif b["txn"]:
            outcome[b["base"]] = nxt.get(b["pid"], "open")
    # a marker ends only the transaction that is open when it is written: a transactional batch
    # that follows an earlier marker of its producer belongs to the next transaction, which the
    # backward scan handles because `nxt` is overwritten at every marker
    return outcome


def ref_view(whole_log_raw, resp_raw, iso, f, lso, hw):
    """[(offset, key, value)] a consumer at `iso` must be handed from this response."""
    outcome = classify(parse_batches(whole_log_raw))
    bound = lso if iso == RC else hw
    out = []
    for b in parse_batches(resp_raw):
        if b["ctl"]:
            continue
        if iso == RC and b["txn"] and outcome[b["base"]] != "committed":
            continue
        for (off, key, value) in b["recs"]:
            if off >= f and off < bound:
                out.append((off, key, value))
    return out


def marker_offsets(whole_log_raw):
    return {b["base"] for b in parse_batches(whole_log_raw) if b["ctl"]}
