"""Run the real SendProduceReqHandler.handle_response on one error code per case and report what happens to
the batch (validation of the translated produceDispatch on every run)."""
import json
import logging
import sys

logging.disable(logging.CRITICAL)

from aiokafka.producer.sender import SendProduceReqHandler  # noqa: E402
from aiokafka.structs import TopicPartition  # noqa: E402

req = json.load(sys.stdin)


def one(code, idem, expired):
    acts = []

    class Batch:
        def done(self, *a, **k):
            acts.append("ADone")

        def done_noack(self):
            acts.append("ADone")

        def failure(self, exception=None):
            acts.append("AFail")

        def expired(self):
            return expired

    class Client:
        def force_metadata_update(self):
            acts.append("AMetadataUpdate")

    class Sender:
        client = Client()
        _txn_manager = object() if idem else None
        _retry_backoff = 0.1
        _acks = 1
        _request_timeout_ms = 1000
        _message_accumulator = None

    tp = TopicPartition("t", 0)
    h = SendProduceReqHandler(Sender(), {tp: Batch()})

    class Resp:
        API_VERSION = 3
        topics = [("t", [(0, code, 5, -1)])]
    exc = None
    try:
        h.handle_response(Resp())
    except Exception as e:  # noqa: BLE001
        exc = type(e).__name__
    if h._to_reenqueue:
        acts.append("AReenqueue")
    return {"code": code, "idem": idem, "expired": expired, "acts": acts, "exc": exc}


print(json.dumps({"out": [one(c["code"], c["idem"], c["expired"]) for c in req["cases"]]}))
