"""Runs under /venv/bin/python with PYTHONPATH=<tree under test>: drives the REAL
aiokafka.consumer.fetcher.PartitionRecords — constructed as Fetcher._proc_fetch_request does
(tp, MemoryRecords(bytes), aborted_transactions, fetch_offset, deserializers, check_crcs,
isolation_level) — to exhaustion over real v2 bytes written by c08_ref.  JSON in, JSON out."""
import json
import os
import random
import sys

sys.path.insert(0, os.path.dirname(os.path.abspath(__file__)))
import c08_ref  # noqa: E402

from aiokafka.consumer import fetcher as _fetcher  # noqa: E402
from aiokafka.consumer.fetcher import PartitionRecords  # noqa: E402
from aiokafka.record.memory_records import MemoryRecords  # noqa: E402
from aiokafka.record.default_records import DefaultRecordBatch  # noqa: E402
from aiokafka.structs import TopicPartition  # noqa: E402

TP = TopicPartition("t", 0)
# Fetcher.__init__ maps the configuration strings to these module constants
ISO = {c08_ref.RU: _fetcher.READ_UNCOMMITTED, c08_ref.RC: _fetcher.READ_COMMITTED}


def hx(b):
    return None if b is None else bytes(b).hex()


def run_fetch(raw, aborted, f, iso):
    """returns dict(out, nfo, trace_ok, exc)"""
    res = {"out": [], "nfo": None, "trace_ok": True, "exc": None}
    try:
        records = MemoryRecords(raw)
        if not records.has_next():
            # _proc_fetch_request builds no PartitionRecords for an empty message set
            res["nfo"] = f
            res["empty"] = True
            return res
        ab = None if aborted is None else [tuple(e) for e in aborted]
        pr = PartitionRecords(TP, records, ab, f, None, None, True, ISO[iso])
        for rec in pr:
            res["out"].append([rec.offset, hx(rec.key), hx(rec.value)])
            if pr.next_fetch_offset != rec.offset + 1:
                res["trace_ok"] = False
        res["nfo"] = pr.next_fetch_offset
    except Exception as e:  # noqa: BLE001
        res["exc"] = type(e).__name__ + ": " + str(e)[:200]
        try:
            res["nfo"] = pr.next_fetch_offset
        except Exception:  # noqa: BLE001
            pass
    return res


def run_fetch_result(raw, aborted, f, iso, mode):
    """the same response consumed through the real FetchResult API (what getone()/getmany() call), over a real
    SubscriptionState holding the position: mode 0 = getone() until None, mode k>0 = getall(max_records=k) until
    the result is exhausted.  Returns the delivered records and the position left in the subscription state."""
    from aiokafka.consumer.fetcher import FetchResult
    from aiokafka.consumer.subscription_state import SubscriptionState
    res = {"out": [], "pos": None, "exc": None, "calls": 0}
    try:
        records = MemoryRecords(raw)
        if not records.has_next():
            res["pos"] = f
            return res
        sub = SubscriptionState()
        sub.assign_from_user({TP})
        asg = sub.subscription.assignment
        asg.state_value(TP).seek(f)
        ab = None if aborted is None else [tuple(e) for e in aborted]
        pr = PartitionRecords(TP, records, ab, f, None, None, True, ISO[iso])
        fr = FetchResult(TP, assignment=asg, partition_records=pr, backoff=0)
        while fr.has_more() and res["calls"] < 10000:
            res["calls"] += 1
            if mode == 0:
                m = fr.getone()
                ms = [] if m is None else [m]
            else:
                ms = fr.getall(mode)
            for rec in ms:
                res["out"].append([rec.offset, hx(rec.key), hx(rec.value)])
        res["pos"] = asg.state_value(TP).position
    except Exception as e:  # noqa: BLE001
        res["exc"] = type(e).__name__ + ": " + str(e)[:200]
    return res


class RecordingSet(set):
    def __init__(self):
        super().__init__()
        self.order = []

    def add(self, x):
        self.order.append(x)
        super().add(x)


def run_consume(q, o):
    """the real _consume_aborted_up_to on a PartitionRecords whose queue is q (already sorted by
    the constructor) — returns (queue afterwards, producers added in order)"""
    pr = PartitionRecords(TP, MemoryRecords(b""), [tuple(e) for e in q], 0, None, None, True,
                          ISO[c08_ref.RC])
    before = [list(e) for e in pr._aborted_transactions]
    pr._aborted_producers = RecordingSet()
    try:
        pr._consume_aborted_up_to(o)
    except Exception as e:  # noqa: BLE001
        return {"exc": type(e).__name__}
    return {"sorted": before, "q": [list(e) for e in pr._aborted_transactions],
            "added": pr._aborted_producers.order}


def main():
    req = json.load(sys.stdin)
    out = {"classes": [MemoryRecords.__module__, DefaultRecordBatch.__module__,
                       PartitionRecords.__module__],
           "fetcher_file": sys.modules[PartitionRecords.__module__].__file__}
    logs_out = []
    for lg in req.get("logs", []):
        log = c08_ref.Log(lg["ops"])
        cases = []
        for c in lg.get("cases", []):
            resp = log.response(log.bound(c["iso"]), c["f"], c["k"])
            raw = log.response_bytes(resp, c.get("trunc", 0))
            r0 = run_fetch(raw, c["idx"], c["f"], c["iso"])
            r0["via"] = {str(m): run_fetch_result(raw, c["idx"], c["f"], c["iso"], m) for m in (0, 1, 2)}
            cases.append(r0)
        seqs = []
        for sq in lg.get("seqs", []):
            f = sq["f"]
            iso = sq["iso"]
            steps = []
            for st in sq["steps"]:
                resp = log.response(log.bound(iso), f, st["k"])
                raw = log.response_bytes(resp, st.get("trunc", 0))
                end = (log.batches[resp[-1]].last + 1) if resp else f
                if iso == c08_ref.RC or st.get("idx_for_ru"):
                    idx = log.kafka_index(f, end + st.get("uextra", 0))
                    random.Random(st.get("perm", 0)).shuffle(idx)
                else:
                    idx = None
                r = run_fetch(raw, idx, f, iso)
                r["via"] = {str(m): run_fetch_result(raw, idx, f, iso, m) for m in (0, 2)}
                r.update({"f": f, "k": st["k"], "idx": idx})
                steps.append(r)
                if r["exc"] is not None or r["nfo"] is None:
                    break
                f = r["nfo"]
            seqs.append(steps)
        logs_out.append({"cases": cases, "seqs": seqs})
    out["logs"] = logs_out
    # control batches emptied by the log cleaner (header kept, marker record gone): consumption must go on past them
    stalls = []
    for st in req.get("emptied", []):
        log = c08_ref.Log(st["ops"])
        ctl = [i for i, b in enumerate(log.batches) if b.ctl]
        for j in st["empty"]:
            b = log.batches[ctl[j % len(ctl)]]
            b.raw = c08_ref.enc_batch(b.base, b.last, b.pid, True, True, [])
        raw = b"".join(b.raw for b in log.batches if b.last >= st["f"])
        idx = log.kafka_index(st["f"], log.hw) if st["iso"] == c08_ref.RC else None
        stalls.append({"end": log.leo, "ctl": [b.base for b in log.batches if b.ctl],
                       "via": {str(m): run_fetch_result(raw, idx, st["f"], st["iso"], m) for m in (0, 2)}})
    out["emptied"] = stalls
    wild = []
    for w in req.get("wild", []):
        raw = b"".join(c08_ref.Batch(b["base"], b["last"], b["pid"], b["txn"], b["ctl"],
                                     [tuple(r) for r in b["recs"]]).raw for b in w["batches"])
        wild.append(run_fetch(raw, w["idx"], w["f"], w["iso"]))
    out["wild"] = wild
    out["consume"] = [run_consume(c["q"], c["o"]) for c in req.get("consume", [])]
    print(json.dumps(out))


async def amain():
    main()      # SubscriptionState wants a running loop; everything else is synchronous


import asyncio  # noqa: E402
asyncio.run(amain())
