"""Run the real Fetcher._proc_fetch_request on a one-partition Fetch response carrying one error code and report
what it does to the partition (validation of the translated fetchDispatch on every run)."""
import asyncio
import json
import logging
import sys
import types

logging.disable(logging.CRITICAL)

from aiokafka.consumer.fetcher import Fetcher, OffsetResetStrategy  # noqa: E402
from aiokafka.consumer.subscription_state import SubscriptionState  # noqa: E402
from aiokafka.structs import TopicPartition  # noqa: E402

req = json.load(sys.stdin)
TP = TopicPartition("t", 0)


async def one(code, has_policy):
    acts = []
    sub = SubscriptionState()
    sub.assign_from_user({TP})
    asg = sub.subscription.assignment
    st = asg.state_value(TP)
    st.seek(5)
    orig_await = st.await_reset

    def await_reset(strategy):
        acts.append("AAwaitReset")
        return orig_await(strategy)
    st.await_reset = await_reset

    class Resp:
        API_VERSION = 4
        topics = [("t", [(0, code, 20, 20, None, b"")])]

    class Client:
        async def send(self, node_id, request):
            return Resp()

        def force_metadata_update(self):
            acts.append("AMetadataUpdate")

    self = types.SimpleNamespace(
        _client=Client(), _retry_backoff=0.1, _client_rack=None, _rack_warning_logged=False,
        _preferred_read_replica={}, _records={}, _key_deserializer=None, _value_deserializer=None, _check_crcs=True,
        _isolation_level=0, _prefetch_backoff=0.1, _max_partition_fetch_bytes=1000,
        _default_reset_strategy=OffsetResetStrategy.LATEST if has_policy else OffsetResetStrategy.NONE)
    self._set_error = lambda tp, err: acts.append("ASetError")
    self._update_preferred_read_replica = lambda *a: None
    self._invalidate_preferred_read_replica_for_node = lambda *a: None
    request = types.SimpleNamespace(topics=[("t", [(0, 5, 1000)])])
    exc = None
    try:
        await Fetcher._proc_fetch_request(self, asg, 0, request)
    except Exception as e:  # noqa: BLE001
        exc = type(e).__name__ + ": " + str(e)[:100]
    if code == 0 and not exc:
        acts.append("ASuccess")
    return {"code": code, "has_policy": has_policy, "acts": acts, "exc": exc,
            "position_kept": st.has_valid_position and st.position == 5}


async def main():
    return [await one(c["code"], c["has_policy"]) for c in req["cases"]]

print(json.dumps({"out": asyncio.run(main())}))
