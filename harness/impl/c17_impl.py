"""Runs under /venv/bin/python with PYTHONPATH=/repo: evaluates the real partitioner."""
import json
import random
import sys

from aiokafka.partitioner import DefaultPartitioner, murmur2


def main():
    req = json.load(sys.stdin)
    out = {}
    if "murmur" in req:
        res = []
        for k in req["murmur"]:
            try:
                res.append(murmur2(bytes(k)))
            except Exception as e:  # noqa: BLE001
                res.append("EXN:" + type(e).__name__)
        out["murmur"] = res
    if req.get("exhaustive2"):
        # all byte strings of length 0..2, in lexicographic-by-length order
        res = [murmur2(b"")]
        res += [murmur2(bytes([a])) for a in range(256)]
        res += [murmur2(bytes([a, b])) for a in range(256) for b in range(256)]
        out["exhaustive2"] = res
    if "partition" in req:
        p = DefaultPartitioner()
        res = []
        for (key, allp, avail, pick) in req["partition"]:
            # random.choice(seq) is modelled as seq[pick % len(seq)]
            random.choice = lambda seq, pick=pick: seq[pick % len(seq)]
            try:
                res.append(p(None if key is None else bytes(key), allp, avail))
            except Exception as e:  # noqa: BLE001
                res.append("EXN:" + type(e).__name__)
        out["partition"] = res
    print(json.dumps(out))


main()
