"""Observation for C19's task calculus: the state of every background task of a client at the moment stop() is
called (raw: the routine's qualified name and the line its own frame is suspended at).  harness/c19.py maps
lines to the await points enumerated by translator/close2gallina.py."""
import inspect


def _one(task):
    coro = task.get_coro()
    qn = getattr(coro, "__qualname__", "?")
    if task.done():
        if task.cancelled():
            return [qn, "cancelled", 0]
        return [qn, "exc" if task.exception() is not None else "ok", 0]
    if inspect.getcoroutinestate(coro) == inspect.CORO_CREATED:
        return [qn, "unstarted", 0]
    fr = getattr(coro, "cr_frame", None)
    return [qn, "parked", fr.f_lineno if fr is not None else -1]


def _slot(obj, attr):
    t = getattr(obj, attr, None) if obj is not None else None
    if t is None:
        return []
    if isinstance(t, (set, list, frozenset)):
        return sorted((_one(x) for x in t), key=str)
    return [_one(t)]


def snapshot_consumer(c):
    co = getattr(c, "_coordinator", None)
    fe = getattr(c, "_fetcher", None)
    cl = getattr(c, "_client", None)
    grp = type(co).__name__ == "GroupCoordinator"
    return {"kind": "group" if grp else "nogroup",
            "heartbeat": _slot(co, "_heartbeat_task") if grp else [],
            "commit_refresh": _slot(co, "_commit_refresh_task") if grp else [],
            "coordination": _slot(co, "_coordination_task") if grp else [],
            "reset_committed": _slot(co, "_reset_committed_task") if not grp else [],
            "fetch": _slot(fe, "_fetch_task"),
            "pending": _slot(fe, "_pending_tasks"),
            "md_sync": _slot(cl, "_sync_task")}


def snapshot_producer(p):
    se = getattr(p, "_sender", None)
    return {"kind": "producer", "sender": _slot(se, "_sender_task"), "md_sync": _slot(getattr(p, "client", None), "_sync_task")}


# ---- exact join-time states: a task factory whose tasks record the state they are in when a close procedure
# ---- calls cancel() on them (pure-Python asyncio.Task subclass; same semantics as the C task) -------------------
import asyncio
import sys

CLOSERS = {"close", "_stop_heartbeat_task", "_stop_commit_offsets_refresh_task"}


class _ObsTask(asyncio.tasks._PyTask):
    def cancel(self, msg=None):
        try:
            fr = sys._getframe(1)
            if fr.f_code.co_name in CLOSERS:
                owner = fr.f_locals.get("self")
                log = getattr(self._loop, "_cancel_log", None)
                if log is not None:
                    log.append((id(owner), _one(self)))
        except Exception:  # noqa: BLE001
            pass
        return super().cancel(msg)


def install_cancel_observer(loop):
    loop._cancel_log = []
    loop.set_task_factory(lambda lp, coro, **kw: _ObsTask(coro, loop=lp, **kw))


def join_time_states(snapshot, loop, mark, owners):
    """Replace the stop()-call-time states of the tasks that the close procedures cancelled by the states they were in
    at that cancel() call; tasks created after the snapshot and cancelled by the close procedures are added."""
    log = getattr(loop, "_cancel_log", None)
    if log is None or "error" in snapshot:
        return snapshot
    own = {id(o) for o in owners if o is not None}
    cancelled = [st for (oid, st) in log[mark:] if oid in own]
    out = dict(snapshot)
    out["joined"] = cancelled
    return out
