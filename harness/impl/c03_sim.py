"""Runs consumer scenarios (manual assignment) under the simulator for C03.
Executed by /venv/bin/python with PYTHONPATH=/repo, AIOKAFKA_NO_EXTENSIONS=1.
stdin {"scenarios": [...]}, stdout last line {"results": [...]}.

Scenario:
  {"id", "seed", "brokers", "partitions", "iso": 0|1, "policy": "earliest"|"latest"|"none",
   "logs": {"<p>": [ops (c03_loggen)]}, "fetch_cut": [k, ...] | None,
   "max_partition_fetch_bytes", "fetch_max_wait_ms", "max_poll_records",
   "latency": [lo, hi], "faults": {"<ordinal among Fetch/ListOffsets/Metadata after start>": fault},
   "migrations": [{"at","partition","to"}], "leaderless": [{"at","partition","for"}],
   "log_start_moves": [{"at","partition","to"}],
   "tasks": [[{"op": "getone"|"getmany"|"seek"|"seek_beg"|"seek_end"|"pause"|"resume"|
                     "position"|"sleep", ...}, ...], ...],
   "drain": seconds of quiet period at the end}

Observation points are installed from outside (no source hooks): see install_wrappers().
"""
import asyncio
import collections
import json
import os
import sys
import traceback

sys.path.insert(0, os.path.join(os.path.dirname(os.path.abspath(__file__)), ".."))
from simkit.loop import install_virtual_time  # noqa: E402

install_virtual_time()

import c03_loggen  # noqa: E402
from simkit import refcodec  # noqa: E402
from simkit.cluster import Fault, SimCluster  # noqa: E402
from simkit.loop import SimDeadlock, run_sim  # noqa: E402

import aiokafka.consumer.fetcher as F  # noqa: E402
import aiokafka.consumer.subscription_state as SS  # noqa: E402
from aiokafka import AIOKafkaConsumer  # noqa: E402
from aiokafka.client import AIOKafkaClient  # noqa: E402
from aiokafka.protocol.fetch import FetchRequest  # noqa: E402
from aiokafka.structs import TopicPartition  # noqa: E402

CL = None            # current cluster (event sink)
FETCH_SENT_HOOK = {"fn": None}   # optional callback (partition, offset) right after a c_fetch_sent event
TASKS = {}           # asyncio task -> user task index
CALLS = {}           # user task index -> current API call description


def _task():
    try:
        return TASKS.get(asyncio.current_task())
    except RuntimeError:
        return None


def _lasts(message_set):
    """last offsets of the batches in a fetched message set (independent reader)."""
    out = []
    raw = bytes(message_set or b"")
    for magic, unit in refcodec.split_batches(raw):
        if magic == 2:
            base, = __import__("struct").unpack(">q", unit[:8])
            delta, = __import__("struct").unpack(">i", unit[23:27])
            out.append(base + delta)
        else:
            off, = __import__("struct").unpack(">q", unit[:8])
            out.append(off)
    return out


def _pos_of(fetch_result):
    try:
        return fetch_result._assignment.state_value(fetch_result._topic_partition)._position
    except Exception:  # noqa: BLE001
        return None


class LoggedRecords(collections.OrderedDict):
    """Fetcher._records with an observation point on keys(): only the scans of next_record /
    fetched_records call it."""

    def keys(self):
        ks = super().keys()
        if CL is not None:
            CL.ev("c_scan", task=_task(),
                  order=[[tp.partition, type(self[tp]) is F.FetchError] for tp in ks])
        return ks


def install_wrappers():
    o_actions = F.Fetcher._get_actions_per_node
    o_send = AIOKafkaClient.send
    o_getone, o_getall = F.FetchResult.getone, F.FetchResult.getall
    o_raise = F.FetchError.check_raise
    o_set_error = F.Fetcher._set_error
    o_seek_to = F.Fetcher.seek_to
    o_req_reset = F.Fetcher.request_offset_reset
    o_reset_to = SS.TopicPartitionState.reset_to
    o_await_reset = SS.TopicPartitionState.await_reset
    o_pause, o_resume = SS.SubscriptionState.pause, SS.SubscriptionState.resume

    def tp_of(state):
        for tp, st in state._assignment._tp_state.items():
            if st is state:
                return tp
        return None

    def _get_actions_per_node(self, assignment):
        res = o_actions(self, assignment)
        if CL is not None:
            for node_id, req in res[0]:
                for topic, parts in req.topics:
                    for (partition, offset, _mb) in parts:
                        CL.ev("c_fetch_sent", p=partition, o=offset, node=node_id)
                        if FETCH_SENT_HOOK["fn"] is not None:
                            FETCH_SENT_HOOK["fn"](partition, offset)
        return res

    async def send(self, node_id, request, *a, **kw):
        if not isinstance(request, FetchRequest) or CL is None:
            return await o_send(self, node_id, request, *a, **kw)
        offs = [(partition, offset) for topic, parts in request.topics for (partition, offset, _mb) in parts]
        try:
            resp = await o_send(self, node_id, request, *a, **kw)
        except BaseException as e:  # noqa: BLE001
            if CL is not None:
                for partition, offset in offs:
                    CL.ev("c_fetch_fail", p=partition, o=offset, node=node_id, exc=type(e).__name__)
            raise
        if CL is not None:
            fo = dict(offs)
            for topic, partitions in resp.topics:
                for partition, error_code, highwater, *part_data in partitions:
                    CL.ev("c_fetch_resp", p=partition, o=fo[partition], code=error_code, node=node_id,
                          lasts=_lasts(part_data[-1]), hw=highwater)
        return resp

    def getone(self):
        msg = o_getone(self)
        if CL is not None:
            CL.ev("c_hand_one", p=self._topic_partition.partition, task=_task(),
                  res=None if msg is None else msg.offset, pos=_pos_of(self))
        return msg

    def getall(self, max_records=None):
        lst = o_getall(self, max_records)
        if CL is not None:
            CL.ev("c_hand_many", p=self._topic_partition.partition, task=_task(), mx=max_records,
                  res=[m.offset for m in lst], pos=_pos_of(self))
        return lst

    def _set_error(self, tp, error):
        r = o_set_error(self, tp, error)
        self._records[tp]._c03_tp = tp
        if CL is not None:
            CL.ev("c_set_error", p=tp.partition, exc=type(error).__name__)
        return r

    def check_raise(self):
        if CL is not None:
            tp = getattr(self, "_c03_tp", None)
            CL.ev("c_raise", p=None if tp is None else tp.partition, task=_task(),
                  exc=type(self._error).__name__, code=getattr(self._error, "errno", -1))
        return o_raise(self)

    def seek_to(self, tp, offset):
        r = o_seek_to(self, tp, offset)
        if CL is not None:
            CL.ev("c_seek", p=tp.partition, o=offset, task=_task())
        return r

    def request_offset_reset(self, tps, strategy):
        tps = list(tps)
        r = o_req_reset(self, tps, strategy)
        if CL is not None:
            for tp in tps:
                CL.ev("c_seek_reset", p=tp.partition, strategy=strategy, task=_task())
        return r

    def reset_to(self, position):
        r = o_reset_to(self, position)
        if CL is not None:
            tp = tp_of(self)
            CL.ev("c_reset_to", p=None if tp is None else tp.partition, o=position)
        return r

    def await_reset(self, strategy):
        r = o_await_reset(self, strategy)
        if CL is not None:
            tp = tp_of(self)
            CL.ev("c_await_reset", p=None if tp is None else tp.partition, strategy=strategy)
        return r

    def pause(self, tp):
        r = o_pause(self, tp)
        if CL is not None:
            CL.ev("c_pause", p=tp.partition, task=_task())
        return r

    def resume(self, tp):
        r = o_resume(self, tp)
        if CL is not None:
            CL.ev("c_resume", p=tp.partition, task=_task())
        return r

    F.Fetcher._get_actions_per_node = _get_actions_per_node
    AIOKafkaClient.send = send
    F.FetchResult.getone, F.FetchResult.getall = getone, getall
    F.FetchError.check_raise = check_raise
    F.Fetcher._set_error = _set_error
    F.Fetcher.seek_to = seek_to
    F.Fetcher.request_offset_reset = request_offset_reset
    SS.TopicPartitionState.reset_to = reset_to
    SS.TopicPartitionState.await_reset = await_reset
    SS.SubscriptionState.pause, SS.SubscriptionState.resume = pause, resume


def run_scenario(sc):
    global CL
    import random
    rng = random.Random(sc.get("seed", 0))
    out = {"id": sc["id"], "ok": True}
    nparts = sc.get("partitions", 1)
    late_ops = []

    def mk(loop):
        c = SimCluster(loop, n_brokers=sc.get("brokers", 1), rng=rng)
        c.add_topic("t", nparts)
        for k, (lo, hi) in (sc.get("api_ranges") or {}).items():
            c.api_ranges[int(k)] = (lo, hi)
        for p in range(nparts):
            for op in (sc.get("logs") or {}).get(str(p), []):
                if op.get("at") is None:
                    c03_loggen.apply_op(c, "t", p, op)
                else:
                    late_ops.append((op["at"], p, op))
        for p, v in (sc.get("log_start") or {}).items():
            c.log("t", int(p)).log_start = v
        lat = sc.get("latency", [0.001, 0.004])
        c.latency = lambda node, api: lat[0] + (lat[1] - lat[0]) * rng.random()
        cuts = sc.get("fetch_cut")
        if cuts:
            state = {"i": 0}

            def fetch_cut(topic, partition, sel):
                k = cuts[state["i"] % len(cuts)]
                state["i"] += 1
                return k
            c.fetch_cut = fetch_cut
        faults = {int(k): v for k, v in (sc.get("faults") or {}).items()}
        counter = {"n": 0}

        def fault_for(info):
            if info["api"] not in ("Fetch", "ListOffsets", "Metadata") or not counter.get("on"):
                return None
            counter["n"] += 1
            f = faults.get(counter["n"])
            if f is None:
                return None
            if info["api"] == "Metadata" and f["kind"] == "error":
                return None
            if info["api"] == "ListOffsets" and f["kind"] == "error" and f.get("code") == 1:
                return None
            return Fault(f["kind"], f.get("code", 0), f.get("delay", 0.0))
        c.fault_for = fault_for
        c.fault_counter = counter
        return c

    async def scenario(loop, net):
        global CL
        CL = net
        TASKS.clear()
        CALLS.clear()
        t_start = loop.time()
        for (at, p, op) in late_ops:
            def app(p=p, op=op):
                c03_loggen.apply_op(net, "t", p, op)
                net.ev("log_append", p=p, op=op["k"], next_offset=net.log("t", p).next_offset)
            loop.call_later(at, app)
        for m in sc.get("migrations") or []:
            def mig(m=m):
                net.log("t", m["partition"]).leader = m["to"]
                net.ev("leader_change", partition=m["partition"], to=m["to"])
            loop.call_later(m["at"], mig)
        for m in sc.get("leaderless") or []:
            def off(m=m):
                lg = net.log("t", m["partition"])
                old = lg.leader
                lg.leader = -1
                net.ev("leader_change", partition=m["partition"], to=-1)

                def on():
                    lg.leader = old
                    net.ev("leader_change", partition=m["partition"], to=old)
                loop.call_later(m["for"], on)
            loop.call_later(m["at"], off)
        for m in sc.get("log_start_moves") or []:
            def mv(m=m):
                lg = net.log("t", m["partition"])
                lg.log_start = max(lg.log_start, min(m["to"], lg.next_offset))
                net.ev("log_start_move", partition=m["partition"], to=lg.log_start)
            loop.call_later(m["at"], mv)

        tps = [TopicPartition("t", p) for p in range(nparts)]
        consumer = AIOKafkaConsumer(
            bootstrap_servers=net.bootstrap(), enable_auto_commit=False,
            auto_offset_reset=sc.get("policy", "earliest"),
            isolation_level="read_committed" if sc.get("iso") else "read_uncommitted",
            fetch_max_wait_ms=sc.get("fetch_max_wait_ms", 100),
            max_partition_fetch_bytes=sc.get("max_partition_fetch_bytes", 1048576),
            max_poll_records=sc.get("max_poll_records"),
            request_timeout_ms=sc.get("request_timeout_ms", 2000),
            retry_backoff_ms=sc.get("retry_backoff_ms", 50),
            metadata_max_age_ms=sc.get("metadata_max_age_ms", 5000),
            check_crcs=sc.get("check_crcs", True))
        consumer.assign(tps)
        await consumer.start()
        fetcher = consumer._fetcher
        lr = LoggedRecords()
        lr.update(fetcher._records)
        fetcher._records = lr
        net.fault_counter["on"] = True
        net.ev("started")

        def rec_json(m):
            return {"p": m.partition, "o": m.offset, "k": (m.key or b"").decode("latin1"),
                    "v": (m.value or b"").decode("latin1")}

        async def do(ti, op):
            k = op["op"]
            parts = [TopicPartition("t", p) for p in (op.get("parts") or [])]
            plist = [tp.partition for tp in parts]
            if k == "sleep":
                await asyncio.sleep(op["t"])
            elif k == "getone":
                net.ev("a_call", task=ti, op="getone", parts=plist)
                try:
                    m = await asyncio.wait_for(consumer.getone(*parts), timeout=op.get("timeout", 1.0))
                    net.ev("a_getone", task=ti, parts=plist, rec=rec_json(m))
                except asyncio.TimeoutError:
                    net.ev("a_getone", task=ti, parts=plist, rec=None)
                except Exception as e:  # noqa: BLE001
                    net.ev("a_exc", task=ti, op="getone", exc=type(e).__name__, msg=str(e)[:200])
            elif k == "getmany":
                net.ev("a_call", task=ti, op="getmany", parts=plist, mx=op.get("max_records"))
                try:
                    r = await consumer.getmany(*parts, timeout_ms=op.get("timeout_ms", 0),
                                               max_records=op.get("max_records"))
                    net.ev("a_getmany", task=ti, parts=plist, mx=op.get("max_records"),
                           recs={str(tp.partition): [rec_json(m) for m in ms] for tp, ms in r.items()})
                except Exception as e:  # noqa: BLE001
                    net.ev("a_exc", task=ti, op="getmany", exc=type(e).__name__, msg=str(e)[:200])
            elif k == "seek":
                try:
                    consumer.seek(TopicPartition("t", op["p"]), op["to"])
                    net.ev("a_seek", task=ti, p=op["p"], o=op["to"])
                except Exception as e:  # noqa: BLE001
                    net.ev("a_exc", task=ti, op="seek", exc=type(e).__name__, msg=str(e)[:200])
            elif k in ("seek_beg", "seek_end"):
                net.ev("a_call", task=ti, op=k, parts=[op["p"]])
                try:
                    fn = consumer.seek_to_beginning if k == "seek_beg" else consumer.seek_to_end
                    ok = await fn(TopicPartition("t", op["p"]))
                    net.ev("a_" + k, task=ti, p=op["p"], done=bool(ok))
                except Exception as e:  # noqa: BLE001
                    net.ev("a_exc", task=ti, op=k, exc=type(e).__name__, msg=str(e)[:200])
            elif k == "pause":
                consumer.pause(*parts)
                net.ev("a_pause", task=ti, parts=plist)
            elif k == "resume":
                consumer.resume(*parts)
                net.ev("a_resume", task=ti, parts=plist)
            elif k == "position":
                net.ev("a_call", task=ti, op="position", parts=[op["p"]])
                try:
                    v = await asyncio.wait_for(consumer.position(TopicPartition("t", op["p"])),
                                               timeout=op.get("timeout", 1.0))
                    net.ev("a_position", task=ti, p=op["p"], pos=v)
                except asyncio.TimeoutError:
                    net.ev("a_position", task=ti, p=op["p"], pos=None)
                except Exception as e:  # noqa: BLE001
                    net.ev("a_exc", task=ti, op="position", exc=type(e).__name__, msg=str(e)[:200])

        async def task(ti, ops):
            TASKS[asyncio.current_task()] = ti
            for op in ops:
                await do(ti, op)

        tasks = [asyncio.ensure_future(task(i, ops)) for i, ops in enumerate(sc.get("tasks") or [])]
        if tasks:
            await asyncio.gather(*tasks)
        # wait until every scheduled log mutation happened
        horizon = max([0.0] + [a for (a, _, _) in late_ops] + [m["at"] for m in sc.get("migrations") or []]
                      + [m["at"] + m["for"] for m in sc.get("leaderless") or []]
                      + [m["at"] for m in sc.get("log_start_moves") or []])
        rest = t_start + horizon + 0.001 - loop.time()
        if rest > 0:
            await asyncio.sleep(rest)
        # ---- quiet period: the fault plan is switched off, everything resumed, the application
        # just drains; delivery has to reach the end of every log
        net.fault_counter["on"] = False
        net.ev("quiet_begin")
        TASKS[asyncio.current_task()] = -1
        consumer.resume(*tps)
        for tp in tps:
            net.ev("a_resume", task=-1, parts=[tp.partition])
        iso = 1 if sc.get("iso") else 0
        deadline = loop.time() + sc.get("drain", 30.0)
        reached = {}
        last_pos, last_progress = None, loop.time()
        loop.max_steps = loop.steps + sc.get("quiet_steps", 600000)
        while loop.time() < deadline:
            cur_pos = [consumer._subscription.subscription.assignment.state_value(tp)._position for tp in tps]
            if cur_pos != last_pos:
                last_pos, last_progress = cur_pos, loop.time()
            elif loop.time() - last_progress > sc.get("stall_limit", 15.0):
                net.ev("quiet_stalled", positions=cur_pos)
                break                      # nothing moved for a long time: the monitor reports it
            done = True
            for tp in tps:
                lg = net.log("t", tp.partition)
                bound = lg.lso if iso else lg.high_watermark
                ends = [b.last_offset + 1 for b in lg.batches if b.last_offset < bound]
                bound = ends[-1] if ends else lg.log_start
                st = consumer._subscription.subscription.assignment.state_value(tp)
                if st._position is None or st._position < bound:
                    done = False
                elif tp.partition not in reached:
                    reached[tp.partition] = loop.time()
            if done:
                break
            net.ev("a_call", task=-1, op="getmany", parts=[], mx=None)
            try:
                r = await consumer.getmany(timeout_ms=200)
                net.ev("a_getmany", task=-1, parts=[], mx=None,
                       recs={str(tp.partition): [rec_json(m) for m in ms] for tp, ms in r.items()})
            except Exception as e:  # noqa: BLE001
                net.ev("a_exc", task=-1, op="getmany", exc=type(e).__name__, msg=str(e)[:200])
                if sc.get("policy") == "none":
                    # the application's answer to NoOffsetForPartition / OffsetOutOfRange: go to the start
                    for tp in tps:
                        st = consumer._subscription.subscription.assignment.state_value(tp)
                        lg = net.log("t", tp.partition)
                        if st._position is None or st._position < lg.log_start or st._position > lg.next_offset:
                            consumer.seek(tp, lg.log_start)
                            net.ev("a_seek", task=-1, p=tp.partition, o=lg.log_start)
        final = {}
        for tp in tps:
            st = consumer._subscription.subscription.assignment.state_value(tp)
            net.ev("a_final", p=tp.partition, pos=st._position, paused=st._paused)
            final[str(tp.partition)] = {"pos": st._position, "paused": st._paused}
        out["final"] = final
        CL = None                  # the observation ends with the final snapshot (stop() is C19's business)
        out["quiet_time"] = loop.time() - (deadline - sc.get("drain", 30.0))
        out["fetch_task_done"] = fetcher._fetch_task.done()
        try:
            await asyncio.wait_for(consumer.stop(), timeout=60.0)
            out["stopped"] = True
        except asyncio.TimeoutError:
            out["stopped"] = False
        gt = {}
        for p in range(nparts):
            lg = net.log("t", p)
            batches, recs, bound = c03_loggen.ground_truth(lg, iso)
            gt[str(p)] = {"batches": batches, "records": {str(k): v for k, v in recs.items()}, "bound": bound,
                          "log_start": lg.log_start, "hw": lg.high_watermark, "lso": lg.lso}
        out["truth"] = gt
        keep = ("c_", "a_")
        if sc.get("full_trace"):
            out["full_trace"] = [{k: v for k, v in e.items() if k != "cls"} for e in net.trace]
        out["trace"] = [e for e in net.trace if e["ev"].startswith(keep) or e["ev"] in (
            "leader_change", "quiet_begin", "started", "log_append", "log_start_move")
            or (e["ev"] == "request" and e["api"] in ("Fetch", "ListOffsets") and e.get("fault"))]
        out["n_requests"] = net.req_ordinal
        out["vtime"] = loop.time() - t_start
        CL = None
        return out

    try:
        return run_sim(scenario, mk, max_vtime=sc.get("max_vtime", 3600.0), seed=sc.get("seed", 0))
    except SimDeadlock as e:
        CL = None
        return {"id": sc["id"], "ok": False, "error": "SimDeadlock: " + str(e)}
    except Exception as e:  # noqa: BLE001
        CL = None
        return {"id": sc["id"], "ok": False, "error": type(e).__name__ + ": " + str(e),
                "tb": traceback.format_exc()[-2000:]}


def main():
    req = json.load(sys.stdin)
    install_wrappers()
    # per-scenario wall-clock watchdog: a client that busy-loops at frozen virtual time (e.g. an application retrying
    # a call that fails at once, for ever) must not take the other scenarios of the shard with it
    import signal

    class WallTimeout(Exception):
        pass

    def on_alarm(signum, frame):
        raise WallTimeout("scenario still running after %d s of wall time" % req.get("wall_limit", 150))
    signal.signal(signal.SIGALRM, on_alarm)
    results = []
    for sc in req["scenarios"]:
        signal.alarm(int(req.get("wall_limit", 150)))
        try:
            results.append(run_scenario(sc))
        except WallTimeout as e:
            results.append({"id": sc["id"], "ok": False, "error": "WallTimeout: " + str(e)})
        finally:
            signal.alarm(0)
    print(json.dumps({"results": results}, default=lambda o: o.decode("latin1") if isinstance(o, bytes) else str(o)))


if __name__ == "__main__":
    import logging
    logging.disable(logging.CRITICAL)
    main()
