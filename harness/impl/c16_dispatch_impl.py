"""Run the real transactional response handlers of the sender on one error code each and report the class of
what they do (validation of the translated Txn*Dispatch chains on every run)."""
import json
import logging
import sys

logging.disable(logging.CRITICAL)

import aiokafka.errors as Errors  # noqa: E402
from aiokafka.producer import sender as S  # noqa: E402
from aiokafka.structs import OffsetAndMetadata, TopicPartition  # noqa: E402

req = json.load(sys.stdin)
TP = TopicPartition("t", 0)


def one(h, code, first_add):
    acts = []

    class Txn:
        transactional_id = "tx"
        producer_id = 1
        producer_epoch = 0
        transaction_timeout_ms = 1000
        txn_partitions = set() if first_add else {TopicPartition("t", 9)}

        def partition_added(self, tp):
            acts.append("ASuccess")

        def set_pid_and_epoch(self, *a):
            acts.append("ASuccess")

        def consumer_group_added(self, *a):
            acts.append("ASuccess")

        def offset_committed(self, *a):
            acts.append("ASuccess")

        def complete_transaction(self):
            acts.append("ASuccess")

    class Client:
        _client_id = "c"

    class Snd:
        _txn_manager = Txn()
        _retry_backoff = 0.1
        client = Client()

        def _coordinator_dead(self, t):
            acts.append("ACoordinatorDead")

        def _abortable_error(self, exc):
            acts.append("AAbortable")

    class R:
        pass
    r = R()
    r.error_code = code
    r.producer_id = 7
    r.producer_epoch = 1
    r.errors = [("t", [(0, code)])]
    snd = Snd()
    if h == "init":
        hd = S.InitPIDHandler(snd)
    elif h == "add_partitions":
        hd = S.AddPartitionsToTxnHandler(snd, [TP])
    elif h == "add_offsets":
        hd = S.AddOffsetsToTxnHandler(snd, "g")
    elif h == "offset_commit":
        hd = S.TxnOffsetCommitHandler(snd, {TP: OffsetAndMetadata(5, "")}, "g")
    else:
        hd = S.EndTxnHandler(snd, True)
    ret = None
    exc = None
    try:
        ret = hd.handle_response(r)
    except Exception as e:  # noqa: BLE001
        exc = type(e).__name__
    if exc is not None:
        cls = "TFatal"
    elif "AAbortable" in acts:
        cls = "TAbortable"
    elif ret is not None:
        cls = "TRetry"
    elif "ASuccess" in acts:
        cls = "TSuccess"
    else:
        cls = "TIgnored"
    fenced = exc == "ProducerFenced"
    same = exc is not None and exc == Errors.for_code(code).__name__
    return {"h": h, "code": code, "first_add": first_add, "acts": acts, "ret": ret, "exc": exc, "class": cls,
            "dead": "ACoordinatorDead" in acts, "fenced": fenced, "raise_same": same}


print(json.dumps({"out": [one(c["h"], c["code"], c.get("first_add", False)) for c in req["cases"]]}))
