"""Real MessageBatch.done / done_noack / failure on constructed batches."""
import asyncio
import json
import sys

from aiokafka.producer.message_accumulator import BatchBuilder, MessageBatch
from aiokafka.structs import TopicPartition

req = json.load(sys.stdin)


async def main():
    out = []
    tp = TopicPartition("t", 3)
    for case in req["cases"]:
        builder = BatchBuilder(1 << 20, 0)
        b = MessageBatch(tp, builder, 100.0, 0.0)
        futs = []
        for (done, ts) in case["futs"]:
            f = b.append(b"k", b"v", ts)
            futs.append(f)
            if done:
                f.set_result("PRE")
        kind = case["kind"]
        try:
            if kind == "done":
                b.done(case["base"], case["bts"], case["ls"])
            elif kind == "noack":
                b.done_noack()
            else:
                b.failure(RuntimeError("x"))
        except Exception as e:  # noqa: BLE001
            out.append({"exc": type(e).__name__})
            continue
        res = []
        for i, f in enumerate(futs):
            if not f.done():
                res.append([i, "PENDING"])
            elif f.exception() is not None:
                res.append([i, "ERR"])
            else:
                r = f.result()
                if r == "PRE":
                    continue
                if r is None:
                    res.append([i, "NONE"])
                else:
                    res.append([i, [r.offset, r.timestamp, r.timestamp_type,
                                    -2 if r.log_start_offset is None else r.log_start_offset,
                                    r.partition, r.topic]])
        out.append({"res": res})
    return out

print(json.dumps({"out": asyncio.run(main())}))
