"""An independent SCRAM server written from RFC 5802 (plain Python: hashlib / hmac / base64
only; nothing from aiokafka).  Used (a) live, inside harness/impl/c18_impl.py, as the peer of
the real ScramAuthenticator, (b) by harness/c18.py for the monitors.

Messages are bytes.  Grammar (RFC 5802 section 7), no channel binding, no authzid:

  client-first   = "n,," "n=" saslname ",r=" c-nonce [",ext"...]
  saslname       = 1*(value-safe-char / "=2C" / "=3D")
  server-first   = "r=" c-nonce s-nonce ",s=" base64(salt) ",i=" posit-number
  client-final   = "c=" base64("n,,") ",r=" nonce ",p=" base64(ClientProof)
  server-final   = "v=" base64(ServerSignature)  /  "e=" error
"""
import base64
import hashlib
import hmac as _hmac

HASHES = {"SCRAM-SHA-256": ("sha256", hashlib.sha256), "SCRAM-SHA-512": ("sha512", hashlib.sha512)}


class ProtocolError(Exception):
    pass


def xor(a: bytes, b: bytes) -> bytes:
    if len(a) != len(b):
        raise ProtocolError("length mismatch")
    return bytes(x ^ y for x, y in zip(a, b))


def hmac_(mech, key, msg):
    return _hmac.new(key, msg, HASHES[mech][1]).digest()


def h_(mech, x):
    return HASHES[mech][1](x).digest()


def hi_(mech, password: bytes, salt: bytes, i: int):
    return hashlib.pbkdf2_hmac(HASHES[mech][0], password, salt, i)


def derive(mech, password: bytes, salt: bytes, i: int):
    """(StoredKey, ServerKey) of RFC 5802 section 3"""
    sp = hi_(mech, password, salt, i)
    ck = hmac_(mech, sp, b"Client Key")
    return h_(mech, ck), hmac_(mech, sp, b"Server Key")


def unescape_saslname(s: bytes) -> bytes:
    if not s:
        raise ProtocolError("empty saslname")
    out = bytearray()
    k = 0
    while k < len(s):
        c = s[k]
        if c == 0x2C:
            raise ProtocolError("raw comma in saslname")
        if c == 0x3D:
            esc = s[k + 1:k + 3]
            if esc == b"2C":
                out.append(0x2C)
            elif esc == b"3D":
                out.append(0x3D)
            else:
                raise ProtocolError("bad escape in saslname")
            k += 3
        else:
            out.append(c)
            k += 1
    res = bytes(out)
    res.decode("utf-8")          # value-safe-char is UTF-8
    if b"\x00" in res:
        raise ProtocolError("NUL in saslname")
    return res


def is_printable_nonce(n: bytes) -> bool:
    return len(n) > 0 and all(0x21 <= c <= 0x7E and c != 0x2C for c in n)


def parse_client_first(msg: bytes):
    """-> (bare, user, nonce); strict: no extensions are accepted"""
    if not msg.startswith(b"n,,"):
        raise ProtocolError("gs2 header")
    bare = msg[3:]
    if not bare.startswith(b"n="):
        raise ProtocolError("no user attribute")
    rest = bare[2:]
    k = rest.find(b",")
    if k < 0:
        raise ProtocolError("no nonce attribute")
    user = unescape_saslname(rest[:k])
    rest = rest[k + 1:]
    if not rest.startswith(b"r="):
        raise ProtocolError("no nonce attribute")
    nonce = rest[2:]
    if not is_printable_nonce(nonce):
        raise ProtocolError("nonce not printable")
    return bare, user, nonce


def parse_server_first_rfc(msg: bytes):
    """Strict RFC reading of a server-first message: exactly r, s, i in this order.
    -> (nonce, salt, i) or None when the message is not of that form."""
    parts = msg.split(b",")
    if len(parts) != 3:
        return None
    r, s, i = parts
    if not (r.startswith(b"r=") and s.startswith(b"s=") and i.startswith(b"i=")):
        return None
    try:
        salt = base64.b64decode(s[2:], validate=True)
    except Exception:  # noqa: BLE001
        return None
    it = i[2:]
    if not it or not all(0x30 <= c <= 0x39 for c in it) or it[0:1] == b"0":
        return None
    return r[2:], salt, int(it)


class ScramServer:
    """One authentication exchange.  `creds` maps user name (bytes) to
    (salt, iterations, StoredKey, ServerKey)."""

    def __init__(self, mech, creds, snonce: bytes):
        self.mech = mech
        self.creds = creds
        self.snonce = snonce
        self.state = "start"
        self.user = self.cnonce = self.bare = self.sfirst = None
        self.proof_ok = None
        self.error = None

    def handle_client_first(self, msg: bytes) -> bytes:
        assert self.state == "start"
        self.bare, self.user, self.cnonce = parse_client_first(msg)
        if self.user not in self.creds:
            self.state = "failed"
            self.error = "unknown-user"
            return b"e=unknown-user"
        salt, i, _, _ = self.creds[self.user]
        self.nonce = self.cnonce + self.snonce
        self.sfirst = b"r=" + self.nonce + b",s=" + base64.b64encode(salt) + b",i=" + str(i).encode()
        self.state = "first-sent"
        return self.sfirst

    def handle_client_final(self, msg: bytes) -> bytes:
        assert self.state == "first-sent"
        self.state = "done"
        try:
            k = msg.rfind(b",p=")
            if k < 0:
                raise ProtocolError("no proof")
            without_proof, ptxt = msg[:k], msg[k + 3:]
            attrs = without_proof.split(b",")
            if len(attrs) != 2 or attrs[0] != b"c=" + base64.b64encode(b"n,,"):
                raise ProtocolError("channel binding")
            if attrs[1] != b"r=" + self.nonce:
                raise ProtocolError("nonce mismatch")
            proof = base64.b64decode(ptxt, validate=True)
        except ProtocolError as e:
            self.proof_ok = False
            self.error = str(e)
            return b"e=other-error"
        except Exception:  # noqa: BLE001
            self.proof_ok = False
            self.error = "base64"
            return b"e=invalid-encoding"
        _, _, stored_key, server_key = self.creds[self.user]
        auth = self.bare + b"," + self.sfirst + b"," + without_proof
        client_sig = hmac_(self.mech, stored_key, auth)
        try:
            client_key = xor(proof, client_sig)
        except ProtocolError:
            self.proof_ok = False
            return b"e=invalid-proof"
        if not _hmac.compare_digest(h_(self.mech, client_key), stored_key):
            self.proof_ok = False
            return b"e=invalid-proof"
        self.proof_ok = True
        self.auth = auth
        return b"v=" + base64.b64encode(hmac_(self.mech, server_key, auth))


# ---------------------------------------------------------------------------- tampering in transit
def _attrs(msg: bytes):
    return [p.split(b"=", 1) if b"=" in p else [p] for p in msg.split(b",")]


def _join(attrs):
    return b",".join(b"=".join(a) for a in attrs)


def _edit_bytes(val: bytes, edit) -> bytes:
    kind = edit[0]
    if kind == "flip":            # ["flip", index, mask]
        b = bytearray(val)
        b[edit[1]] ^= edit[2]
        return bytes(b)
    if kind == "del":             # ["del", index]
        return val[:edit[1]] + val[edit[1] + 1:]
    if kind == "ins":             # ["ins", index, [bytes]]
        return val[:edit[1]] + bytes(edit[2]) + val[edit[1]:]
    if kind == "trunc":           # ["trunc", n]  keep n bytes
        return val[:edit[1]]
    if kind == "set":             # ["set", [bytes]]
        return bytes(edit[1])
    if kind == "append":
        return val + bytes(edit[1])
    if kind == "prepend":
        return bytes(edit[1]) + val
    if kind == "swapcase":
        return val.swapcase()
    if kind == "reverse":
        return val[::-1]
    raise ValueError(kind)


def tamper(msg: bytes, op) -> bytes:
    """op is a list: [what, ...]
       ["attr", key, edit]        edit the text of the first attribute `key`
       ["attr64", key, edit]      edit the base64-decoded value of attribute `key`, re-encode
       ["drop", key]              remove the attribute
       ["dup_after", key, [bytes]]   append a second binding of key
       ["dup_before", key, [bytes]]  prepend a second binding of key
       ["extra", [bytes]]         append ',' + bytes
       ["reorder", [i0, i1, ...]] permute the attributes
       ["raw", edit]              edit the whole message as bytes
    """
    what = op[0]
    if what == "raw":
        return _edit_bytes(msg, op[1])
    attrs = _attrs(msg)
    if what in ("attr", "attr64"):
        key = op[1].encode()
        for a in attrs:
            if a[0] == key and len(a) == 2:
                if what == "attr":
                    a[1] = _edit_bytes(a[1], op[2])
                else:
                    a[1] = base64.b64encode(_edit_bytes(base64.b64decode(a[1]), op[2]))
                break
        return _join(attrs)
    if what == "drop":
        key = op[1].encode()
        return _join([a for a in attrs if a[0] != key])
    if what == "dup_after":
        return _join(attrs + [[op[1].encode(), bytes(op[2])]])
    if what == "dup_before":
        return _join([[op[1].encode(), bytes(op[2])]] + attrs)
    if what == "extra":
        return msg + b"," + bytes(op[1])
    if what == "reorder":
        return _join([attrs[k] for k in op[1] if k < len(attrs)])
    raise ValueError(what)
