"""C16: runs API-call programs on the REAL transactional AIOKafkaProducer under the simulator.
Executed by /venv/bin/python with PYTHONPATH=/repo, AIOKAFKA_NO_EXTENSIONS=1.
stdin: {"programs": [{"id", "calls": [name...], "faults": {"<call index>": [idx, kind, code]}}]}
stdout (last line): {"results": [...]}

Calls: begin | send0 | send1 | send_offsets | commit | abort | ctx_ok | ctx_exc | send0_nowait | send1_nowait.
Every call is awaited to completion (send = send() + await the returned future), except sendK_nowait:
send() is awaited, the delivery future it returns is kept and the next call starts at once, while the
batch is still queued; the kept futures are awaited when the next commit / abort / context exit has
returned (or raised), or right before any other call that is not a nowait send; their outcome is
recorded with that call ("futs").
A fault [idx, kind, code] hits the idx-th *faultable* request (AddPartitionsToTxn, AddOffsetsToTxn,
TxnOffsetCommit, EndTxn, Produce — counted from 0 from the start of the call) that reaches the
cluster during that call: kind "error" (reply carries `code`), "drop_before" (connection dies before
the broker applies the request) or "drop_after" (applied, connection dies before the reply).
"""
import asyncio
import json
import os
import sys
import traceback

sys.path.insert(0, os.path.join(os.path.dirname(os.path.abspath(__file__)), ".."))
from simkit.loop import install_virtual_time  # noqa: E402

install_virtual_time()

from simkit.cluster import Fault, SimCluster  # noqa: E402
from simkit.loop import SimDeadlock, run_sim  # noqa: E402

from aiokafka import AIOKafkaProducer  # noqa: E402
from aiokafka.producer.producer import TransactionContext  # noqa: E402
from aiokafka.structs import TopicPartition  # noqa: E402

FAULTABLE = ("AddPartitionsToTxn", "AddOffsetsToTxn", "TxnOffsetCommit", "EndTxn", "Produce")
OBSERVED = FAULTABLE + ("FindCoordinator",)
TID = "tx-c16"
GROUP = "g"


def exc_name(e):
    return type(e).__name__


def summarize_req(e):
    api = e["api"]
    s = e.get("summary") or {}
    if api == "Produce":
        return ["Produce", sorted(p[1] for p in s.get("parts", []))]
    if api == "AddPartitionsToTxn":
        return ["AddPartitionsToTxn", sorted(p for t in s.get("topics", []) for p in t["partitions"])]
    if api == "AddOffsetsToTxn":
        return ["AddOffsetsToTxn", []]
    if api == "TxnOffsetCommit":
        return ["TxnOffsetCommit", []]
    if api == "EndTxn":
        return ["EndTxn", [1 if s.get("transaction_result") else 0]]
    if api == "FindCoordinator":
        return ["FindCoordinator", [int(s.get("coordinator_type", 0))]]
    return [api, []]


def run_program(pr):
    out = {"id": pr["id"], "ok": True}
    faults = {int(k): v for k, v in (pr.get("faults") or {}).items()}
    cur = {"call": -1, "n": 0, "on": False}

    def mk(loop):
        c = SimCluster(loop, n_brokers=pr.get("brokers", 1))
        for k_, (lo_, hi_) in (pr.get("api_ranges") or {}).items():
            c.api_ranges[int(k_)] = (lo_, hi_)
        c.add_topic("t", 2)
        c.latency = lambda node, api: 0.001

        def fault_for(info):
            if not cur["on"] or info["api"] not in FAULTABLE:
                return None
            idx = cur["n"]
            cur["n"] += 1
            f = faults.get(cur["call"])
            if f is None or f[0] != idx:
                return None
            return Fault(f[1], f[2] if len(f) > 2 else 0, 0.0)
        c.fault_for = fault_for
        return c

    async def scenario(loop, net):
        p = AIOKafkaProducer(bootstrap_servers=net.bootstrap(), transactional_id=TID,
                             request_timeout_ms=2000, retry_backoff_ms=20, linger_ms=0)
        await p.start()
        cur["on"] = True
        calls = []
        rid = 0
        pending = {0: [], 1: []}     # futures of sendK_nowait calls nobody has awaited yet

        async def await_pending(res):
            """Await the futures of the earlier nowait sends; one outcome per partition."""
            futs = {}
            for part in (0, 1):
                outs = []
                for fu in pending[part]:
                    try:
                        await fu
                        outs.append(["ok", None, None])
                    except asyncio.CancelledError:
                        raise
                    except BaseException as e:  # noqa: BLE001
                        outs.append(["exc", exc_name(e), getattr(e, "errno", None)])
                pending[part] = []
                if outs:
                    futs[str(part)] = outs[0] if all(o == outs[0] for o in outs) else ["mixed", outs, None]
            res["futs"] = futs

        for i, name in enumerate(pr["calls"]):
            cur["call"], cur["n"] = i, 0
            mark = len(net.trace)
            res = {"call": name}
            state_before = p._txn_manager.state.name
            has_pending = bool(pending[0] or pending[1])
            is_end = name in ("commit", "abort", "ctx_ok", "ctx_exc")
            is_nowait = name.endswith("_nowait")
            try:
                if has_pending and not is_end and not is_nowait:
                    # the application awaits its outstanding send futures before doing anything else
                    # than ending the transaction
                    await await_pending(res)
                if is_nowait:
                    part = int(name[4])
                    rid += 1
                    res["phase"] = "call"
                    fut = await p.send("t", b"r%d" % rid, key=b"k", partition=part)
                    res["rid"] = rid
                    pending[part].append(fut)
                elif name == "begin":
                    await p.begin_transaction()
                elif name in ("send0", "send1"):
                    part = int(name[-1])
                    rid += 1
                    try:
                        fut = await p.send("t", b"r%d" % rid, key=b"k", partition=part)
                    except BaseException as e:  # noqa: BLE001
                        res["phase"] = "call"
                        raise e
                    res["rid"] = rid
                    res["phase"] = "future"
                    await fut
                elif name == "send_offsets":
                    await p.send_offsets_to_transaction({TopicPartition("t", 0): 5 + i}, GROUP)
                elif name == "commit":
                    await p.commit_transaction()
                elif name == "abort":
                    await p.abort_transaction()
                elif name == "ctx_ok":
                    r = await TransactionContext(p).__aexit__(None, None, None)
                    res["suppressed"] = bool(r)
                elif name == "ctx_exc":
                    ex = RuntimeError("application error")
                    r = await TransactionContext(p).__aexit__(RuntimeError, ex, None)
                    res["suppressed"] = bool(r)
                else:
                    raise ValueError(name)
                res["result"] = "ok"
            except asyncio.CancelledError:
                raise
            except BaseException as e:  # noqa: BLE001
                res["result"] = "exc"
                res["exc"] = exc_name(e)
                res["errno"] = getattr(e, "errno", None)
                res["msg"] = str(e)[:80]
            if has_pending and is_end:
                # ... or right after the commit / abort / context exit returned (or raised)
                await await_pending(res)
            res["t_done"] = len(net.trace)
            # requests that reached the cluster between the start of the call and its completion
            res["requests"] = [summarize_req(e) for e in net.trace[mark:] if e["ev"] == "request"
                               and e["api"] in OBSERVED]
            res["faulted"] = [[e["api"], e["fault"]] for e in net.trace[mark:] if e["ev"] == "request"
                              and e.get("fault")]
            # settle: anything the client still sends after the call returned
            mark2 = len(net.trace)
            if not (pending[0] or pending[1]):
                # (no pause after a nowait send: the next call starts at once)
                await asyncio.sleep(0.5)
            res["late_requests"] = [summarize_req(e) for e in net.trace[mark2:] if e["ev"] == "request"
                                    and e["api"] in OBSERVED]
            res["state_before"] = state_before
            res["state_after"] = p._txn_manager.state.name
            res["txn_partitions"] = sorted(tp.partition for tp in p._txn_manager._txn_partitions)
            tm_ = p._txn_manager
            res["group_added"] = bool(tm_._txn_consumer_groups) if hasattr(tm_, "_txn_consumer_groups") \
                else tm_._txn_consumer_group is not None
            # the error stored for commit_transaction() to re-raise (TransactionManager._transaction_waiter)
            w = p._txn_manager._transaction_waiter
            we = w.exception() if (w is not None and w.done() and not w.cancelled()) else None
            res["stored_error"] = [exc_name(we), getattr(we, "errno", None)] if we is not None else None
            t = net.tc.by_id.get(TID)
            res["coord"] = {"state": t.state, "partitions": sorted(x[1] for x in t.partitions),
                            "groups": sorted(t.groups), "n_ended": len(t.history)} if t else None
            res["log_sizes"] = [net.log("t", q).next_offset for q in range(2)]
            res["sender_alive"] = not p._sender.sender_task.done()
            calls.append(res)
        out["calls"] = calls
        out["client_violations"] = list(net.tc.client_violations)
        t = net.tc.by_id.get(TID)
        out["history"] = t.history if t else []
        out["logs"] = {}
        for q in range(2):
            lg = net.log("t", q)
            out["logs"][q] = {"batches": [
                {"base": b.base_offset, "last": b.last_offset, "control": bool(b.control),
                 "txn": bool(b.transactional), "pid": b.pid,
                 "values": [] if b.control else [(r["value"] or b"").decode("latin1") for r in b.records],
                 "ctl": getattr(b, "control_type", None)} for b in lg.batches],
                "lso": lg.lso, "next": lg.next_offset, "aborted": list(lg.aborted)}
        g = net.gc.groups.get(GROUP)
        out["group_offsets"] = {f"{k[0]}-{k[1]}": v[0] for k, v in (g.offsets.items() if g else [])}
        try:
            await asyncio.wait_for(p.stop(), timeout=30)
            out["stopped"] = True
        except BaseException as e:  # noqa: BLE001
            out["stopped"] = exc_name(e)
        if pr.get("keep_trace"):
            out["trace"] = [e for e in net.trace if e["ev"] in ("request", "reply", "arrive", "txn_end",
                                                               "txn_add_partitions", "txn_add_offsets",
                                                               "txn_offset_commit", "init_pid")]
        return out

    try:
        return run_sim(scenario, mk, max_vtime=pr.get("max_vtime", 600.0), seed=pr.get("seed", 0))
    except SimDeadlock as e:
        return {"id": pr["id"], "ok": False, "error": "SimDeadlock: " + str(e)}
    except Exception as e:  # noqa: BLE001
        return {"id": pr["id"], "ok": False, "error": exc_name(e) + ": " + str(e),
                "tb": traceback.format_exc()[-1500:]}


def table():
    from aiokafka.producer.transaction_manager import TransactionState as TS
    vals = sorted(TS, key=lambda x: x.value)
    return {"values": [v.value for v in vals], "names": [v.name for v in vals],
            "rows": [[bool(TS.is_transition_valid(a, b)) for b in vals] for a in vals]}


def main():
    req = json.load(sys.stdin)
    results = [run_program(pr) for pr in req.get("programs", [])]
    print(json.dumps({"results": results, "table": table() if req.get("table") else None},
                     default=lambda o: o.decode("latin1") if isinstance(o, bytes) else str(o)))


if __name__ == "__main__":
    import logging
    logging.disable(logging.CRITICAL)
    main()
