"""C13: a consumer (with or without a group id) that is assigned partitions a SECOND time - assign() called again,
a subscribed topic growing, unsubscribe() + subscribe() - must establish start positions for the new assignment exactly as
for the first one.  stdin {"cases": [...]}, stdout {"out": [...]}."""
import asyncio
import json
import os
import sys

sys.path.insert(0, os.path.join(os.path.dirname(os.path.abspath(__file__)), ".."))
from simkit.loop import install_virtual_time  # noqa: E402

install_virtual_time()
from simkit.cluster import PartitionLog, SimCluster  # noqa: E402
from simkit.loop import run_sim  # noqa: E402
from simkit import refcodec  # noqa: E402

from aiokafka import AIOKafkaConsumer  # noqa: E402
from aiokafka.structs import TopicPartition  # noqa: E402


def run_case(case):
    import random
    rng = random.Random(case["seed"])

    def mk(loop):
        c = SimCluster(loop, n_brokers=1, rng=rng)
        c.add_topic("t", case["partitions"])
        for p in range(case["partitions"]):
            for i in range(case["preload"]):
                c.append_raw("t", p, lambda base, i=i: refcodec.build_v2(base, [(0, 1000 + i, b"k", b"v%d" % i, [])]))
        for k, (lo, hi) in (case.get("api_ranges") or {}).items():
            c.api_ranges[int(k)] = (lo, hi)
        return c

    async def position_of(consumer, tp):
        try:
            return await asyncio.wait_for(consumer.position(tp), 3.0)
        except asyncio.TimeoutError:
            return "TIMEOUT"
        except Exception as e:  # noqa: BLE001
            return "EXC:" + type(e).__name__

    async def scenario(loop, net):
        kw = dict(bootstrap_servers=net.bootstrap(), auto_offset_reset=case["policy"], enable_auto_commit=False,
                  metadata_max_age_ms=200, request_timeout_ms=1500, retry_backoff_ms=50)
        if case.get("group"):
            kw["group_id"] = "g"
        consumer = AIOKafkaConsumer(**kw)
        tps = [TopicPartition("t", p) for p in range(case["partitions"])]
        out = {"first": {}, "second": {}}
        if case["how"] == "assign_twice":
            consumer.assign(tps)
        else:
            consumer.subscribe(["t"])
        await consumer.start()
        try:
            await asyncio.sleep(0.3)
            for tp in tps:
                out["first"][str(tp.partition)] = await position_of(consumer, tp)
            # ---- the second assignment
            if case["how"] == "assign_twice":
                consumer.assign(list(reversed(tps)) if case.get("same") else tps[:1])
                tps2 = tps if case.get("same") else tps[:1]
            elif case["how"] == "resubscribe":
                consumer.unsubscribe()
                await asyncio.sleep(0)
                consumer.subscribe(["t"])
                tps2 = tps
            else:   # the topic grows
                n0 = case["partitions"]
                net.topics["t"][n0] = PartitionLog("t", n0, 0)
                tps2 = tps + [TopicPartition("t", n0)]
            await asyncio.sleep(case.get("settle", 1.0))
            assigned = sorted(tp.partition for tp in consumer.assignment())
            out["assigned"] = assigned
            for tp in tps2:
                if tp.partition in assigned:
                    out["second"][str(tp.partition)] = await position_of(consumer, tp)
            out["ends"] = {str(p): net.log("t", p).next_offset for p in net.topics["t"]}
        finally:
            try:
                await asyncio.wait_for(consumer.stop(), 30.0)
            except Exception as e:  # noqa: BLE001
                out["stop_exc"] = type(e).__name__
        return out
    try:
        return run_sim(scenario, mk, max_vtime=600.0, seed=case["seed"])
    except Exception as e:  # noqa: BLE001
        return {"error": type(e).__name__ + ": " + str(e)[:300]}


req = json.load(sys.stdin)
import logging  # noqa: E402
logging.disable(logging.CRITICAL)
print(json.dumps({"out": [run_case(c) for c in req["cases"]]}))
