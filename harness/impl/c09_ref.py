"""Independent reference codec for Kafka record batches (message formats v0, v1, v2),
written from the Kafka protocol documentation — struct / zlib only, plus cramjam's raw
block codecs for snappy / lz4 / zstd *payloads* (never aiokafka.codec, never aiokafka.record).

Records are tuples  (offset, timestamp, key, value, headers)  with key/value bytes|None and
headers a list of (key_utf8_bytes, value bytes|None)."""
import struct
import zlib

try:
    import cramjam
except ImportError:  # pragma: no cover
    cramjam = None


# ---------------------------------------------------------------------------------- CRC-32C
def _mk_table(poly):
    t = []
    for n in range(256):
        c = n
        for _ in range(8):
            c = (c >> 1) ^ poly if c & 1 else c >> 1
        t.append(c)
    return t


_T_C = _mk_table(0x82F63B78)


def crc32c(data):
    c = 0xFFFFFFFF
    for b in data:
        c = _T_C[(c ^ b) & 0xFF] ^ (c >> 8)
    return c ^ 0xFFFFFFFF


assert crc32c(b"123456789") == 0xE3069283


def crc32(data):
    return zlib.crc32(bytes(data)) & 0xFFFFFFFF


# ---------------------------------------------------------------------------------- varints
def varint(v):
    """zig-zag + base-128, for any int64"""
    assert -(1 << 63) <= v < (1 << 63)
    u = (v << 1) ^ (v >> 63)
    u &= (1 << 64) - 1
    out = bytearray()
    while u >= 0x80:
        out.append((u & 0x7F) | 0x80)
        u >>= 7
    out.append(u)
    return bytes(out)


def read_varint(buf, pos):
    u = 0
    shift = 0
    while True:
        if pos >= len(buf):
            raise ValueError("truncated varint")
        b = buf[pos]
        pos += 1
        u |= (b & 0x7F) << shift
        if not b & 0x80:
            break
        shift += 7
        if shift > 63:
            raise ValueError("varint too long")
    return (u >> 1) ^ -(u & 1), pos


# ---------------------------------------------------------------------------------- codecs
def decompress(codec, data):
    data = bytes(data)
    if codec == 1:
        return zlib.decompress(data, wbits=31)
    if codec == 2:
        # xerial framing: 16 byte header then [int32 length][raw snappy block]*
        if data[:8] == b"\x82SNAPPY\x00":
            out = bytearray()
            pos = 16
            while pos < len(data):
                (n,) = struct.unpack_from(">i", data, pos)
                pos += 4
                out += bytes(cramjam.snappy.decompress_raw(data[pos:pos + n]))
                pos += n
            return bytes(out)
        return bytes(cramjam.snappy.decompress_raw(data))
    if codec == 3:
        return bytes(cramjam.lz4.decompress(data))
    if codec == 4:
        return bytes(cramjam.zstd.decompress(data))
    raise ValueError(f"codec {codec}")


def have_codec(codec):
    return codec in (0, 1) or cramjam is not None


# ---------------------------------------------------------------------------------- v2
V2_HEADER = struct.Struct(">qiibIhiqqqhii")     # 61 bytes
assert V2_HEADER.size == 61


def encode_record_v2(first_ts, rec):
    offset, ts, key, value, headers = rec
    body = bytearray(b"\x00")
    body += varint(ts - first_ts)
    body += varint(offset)
    for field in (key, value):
        if field is None:
            body += varint(-1)
        else:
            body += varint(len(field)) + bytes(field)
    body += varint(len(headers))
    for hk, hv in headers:
        body += varint(len(hk)) + bytes(hk)
        if hv is None:
            body += varint(-1)
        else:
            body += varint(len(hv)) + bytes(hv)
    return varint(len(body)) + bytes(body)


def records_region_v2(recs):
    if not recs:
        return b""
    first = recs[0][1]
    return b"".join(encode_record_v2(first, r) for r in recs)


def assemble_v2(base_offset, leader_epoch, magic, attrs, last_delta, first_ts, max_ts, pid, pepoch,
                bseq, count, payload):
    tail = struct.pack(">hiqqqhii", attrs, last_delta, first_ts, max_ts, pid, pepoch, bseq, count) \
        + bytes(payload)
    return struct.pack(">qiibI", base_offset, len(tail) + 9, leader_epoch, magic, crc32c(tail)) + tail


def encode_v2(recs, txn=False, pid=-1, pepoch=-1, bseq=-1, empty_ts=0):
    """uncompressed producer-side batch (base offset 0, leader epoch -1, CreateTime)"""
    first = recs[0][1] if recs else empty_ts
    mx = max(r[1] for r in recs) if recs else empty_ts
    last = recs[-1][0] if recs else 0
    return assemble_v2(0, -1, 2, 0x10 if txn else 0, last, first, mx, pid, pepoch, bseq, len(recs),
                       records_region_v2(recs))


def decode_v2(buf):
    buf = bytes(buf)
    (base, length, epoch, magic, crc, attrs, last_delta, first_ts, max_ts, pid, pepoch, bseq,
     count) = V2_HEADER.unpack_from(buf, 0)
    hdr = dict(base_offset=base, length=length, leader_epoch=epoch, magic=magic, crc=crc, attrs=attrs,
               last_offset_delta=last_delta, first_ts=first_ts, max_ts=max_ts, pid=pid, pepoch=pepoch,
               bseq=bseq, count=count,
               length_ok=(length == len(buf) - 12), crc_ok=(crc == crc32c(buf[21:])))
    codec = attrs & 7
    data = buf[61:]
    if codec:
        data = decompress(codec, data)
    hdr["data"] = data
    lat = bool(attrs & 8)
    pos = 0
    recs = []
    for _ in range(count):
        ln, pos = read_varint(data, pos)
        start = pos
        if data[pos] != 0:
            raise ValueError("record attributes")
        pos += 1
        dts, pos = read_varint(data, pos)
        doff, pos = read_varint(data, pos)
        kv = []
        for _k in range(2):
            n, pos = read_varint(data, pos)
            if n < 0:
                kv.append(None)
            else:
                if pos + n > len(data):
                    raise ValueError("truncated")
                kv.append(data[pos:pos + n])
                pos += n
        nh, pos = read_varint(data, pos)
        hs = []
        for _h in range(nh):
            n, pos = read_varint(data, pos)
            hk = data[pos:pos + n]
            pos += n
            n, pos = read_varint(data, pos)
            if n < 0:
                hv = None
            else:
                hv = data[pos:pos + n]
                pos += n
            hs.append((hk, hv))
        if pos - start != ln:
            raise ValueError("record length")
        recs.append((base + doff, max_ts if lat else first_ts + dts, 1 if lat else 0, kv[0], kv[1], hs))
    if pos != len(data):
        raise ValueError("trailing bytes in batch")
    return hdr, recs


def stamp_v2(buf, base, epoch, lat, control):
    """what a broker does to a produced batch: base offset, leader epoch, optionally
    LogAppendTime (attribute bit 3 + MaxTimestamp), control bit; CRC over attributes..end"""
    buf = bytes(buf)
    (_b, _l, _e, magic, _crc, attrs, last_delta, first_ts, max_ts, pid, pepoch, bseq,
     count) = V2_HEADER.unpack_from(buf, 0)
    if lat is not None:
        attrs |= 8
        max_ts = lat
    if control:
        attrs |= 0x20
    return assemble_v2(base, epoch, magic, attrs, last_delta, first_ts, max_ts, pid, pepoch, bseq,
                       count, buf[61:])


# ---------------------------------------------------------------------------------- v0 / v1
def encode_legacy_msg(magic, offset, ts, key, value, attrs=0):
    tail = struct.pack(">bb", magic, attrs)
    if magic == 1:
        tail += struct.pack(">q", ts)
    for f in (key, value):
        tail += struct.pack(">i", -1) if f is None else struct.pack(">i", len(f)) + bytes(f)
    return struct.pack(">qiI", offset, len(tail) + 4, crc32(tail)) + tail


def encode_legacy(magic, recs):
    """uncompressed message set: one message per record"""
    return b"".join(encode_legacy_msg(magic, r[0], r[1], r[2], r[3]) for r in recs)


def _parse_legacy_msg(buf, pos):
    offset, length, crc, magic, attrs = struct.unpack_from(">qiIbb", buf, pos)
    end = pos + 12 + length
    if end > len(buf) or length < 14:
        raise ValueError("legacy message length")
    p = pos + 18
    ts = None
    if magic == 1:
        (ts,) = struct.unpack_from(">q", buf, p)
        p += 8
    kv = []
    for _ in range(2):
        (n,) = struct.unpack_from(">i", buf, p)
        p += 4
        if n == -1:
            kv.append(None)
        else:
            if n < 0 or p + n > end:
                raise ValueError("legacy field length")
            kv.append(bytes(buf[p:p + n]))
            p += n
    if p != end:
        raise ValueError("legacy message trailing bytes")
    crc_ok = crc == crc32(buf[pos + 16:end])
    return dict(offset=offset, length=length, crc=crc, magic=magic, attrs=attrs, ts=ts, key=kv[0],
                value=kv[1], crc_ok=crc_ok), end


def decode_legacy_msg(buf):
    """one message (possibly a compressed wrapper) -> (info, records);
    records are (offset, timestamp|None, timestamp_type|None, key, value, crc)"""
    buf = bytes(buf)
    m, end = _parse_legacy_msg(buf, 0)
    if end != len(buf):
        raise ValueError("slice is not one message")
    magic = m["magic"]
    codec = m["attrs"] & 7
    lat = bool(m["attrs"] & 8)
    tstype = None if magic == 0 else (1 if lat else 0)
    if not codec:
        return m, [(m["offset"], m["ts"], tstype, m["key"], m["value"], m["crc"])]
    data = decompress(codec, m["value"])
    m["data"] = data
    inner = []
    pos = 0
    while pos < len(data):
        im, pos = _parse_legacy_msg(data, pos)
        if im["attrs"] & 7:
            raise ValueError("nested compression")
        inner.append(im)
    recs = []
    base = m["offset"] - inner[-1]["offset"] if (magic == 1 and inner) else 0
    for im in inner:
        ts = im["ts"]
        if magic == 1 and lat:
            ts = m["ts"]
        recs.append((im["offset"] + base, ts, tstype, im["key"], im["value"], im["crc"]))
    m["inner_crc_ok"] = all(im["crc_ok"] for im in inner)
    return m, recs


def stamp_legacy(buf, offset, lat):
    """broker side for one message: assign the offset (for a v1 wrapper: that of its last
    inner message), optionally LogAppendTime"""
    buf = bytes(buf)
    m, _ = _parse_legacy_msg(buf, 0)
    attrs = m["attrs"] | (8 if lat is not None else 0)
    ts = m["ts"]
    if lat is not None and m["magic"] == 1:
        ts = lat
    return encode_legacy_msg(m["magic"], offset, ts, m["key"], m["value"], attrs)


# ---------------------------------------------------------------------------------- splitting
def split(buf):
    """[(magic, slice)], trailing — by the common Length (offset 8) / Magic (offset 16) layout"""
    buf = bytes(buf)
    out = []
    pos = 0
    while len(buf) - pos >= 12:
        (length,) = struct.unpack_from(">i", buf, pos + 8)
        if length < 14:
            raise ValueError("batch length")
        end = pos + 12 + length
        if end > len(buf):
            break
        out.append((buf[pos + 16], buf[pos:end]))
        pos = end
    return out, buf[pos:]
