"""C07: transactional producer instances under the deterministic simulator.
Executed by /venv/bin/python with PYTHONPATH=<repo>, AIOKAFKA_NO_EXTENSIONS=1.
stdin: {"scenarios": [...]}; stdout (last line): {"results": [...]}.

Scenario:
 {"id", "seed", "brokers": 1..3, "partitions": 1..3, "marker_delay": s, "linger_ms", "max_batch_size",
  "request_timeout_ms", "retry_backoff_ms", "txn_coord": node, "group_coord": node,
  "instances": [{"start_at": s, "use_ctx": bool,
                 "txns": [{"tasks": [[{"p": part, "sleep": s, "n": 1}, ...], ...],
                           "offsets": {"at": "before"|"after"|"concurrent", "items": [[part, off], ...]} | null,
                           "await_sends": bool, "end": "commit"|"abort", "pause": s,
                           "end_after": s | absent}]}],
      tasks items may carry "size": bytes of padding in the record value (with a small max_batch_size a
      batch then holds one or two records and further send() calls park in add_message/wait_drain);
      "end_after": the application does NOT wait for its send() calls: it calls commit/abort that many
      seconds after begin_transaction() while the send tasks are still running (parked or sleeping);
      a send() that raises is recorded ("refused") and ends its task; the tasks are collected after the
      commit/abort returned, before the next transaction begins
  "faults": {"<Api>:<n>": {"kind", "code", "delay"}},     n-th request of that API (1-based, whole run)
  "moves":  {"<Api>:<n>": {"txn": node} | {"group": node}},   coordinator moved just before that request
  "loading": {"<Api>:<n>": k}    transaction coordinator answers COORDINATOR_LOAD_IN_PROGRESS to the
                                  next k requests starting with that one
  "kills": [{"inst": i, "req": k, "applied": bool}]   kill instance i at its k-th request (1-based,
            counted per instance): applied=false -> the request is lost with the process,
            applied=true -> the broker applies it, the reply is never seen
  "quiet": s }
"""
import asyncio
import contextvars
import json
import os
import sys
import traceback

sys.path.insert(0, os.path.join(os.path.dirname(os.path.abspath(__file__)), ".."))
from simkit.loop import install_virtual_time  # noqa: E402

install_virtual_time()

from simkit.cluster import Fault, SimCluster  # noqa: E402
from simkit.loop import SimDeadlock, run_sim  # noqa: E402

import aiokafka.producer.message_accumulator as MA  # noqa: E402
import aiokafka.producer.sender as SN  # noqa: E402
import aiokafka.producer.transaction_manager as TM  # noqa: E402
from aiokafka import AIOKafkaProducer  # noqa: E402
from aiokafka.structs import TopicPartition  # noqa: E402

TID = "tx-c07"
GROUP = "g"
INST = contextvars.ContextVar("c07_instance", default=-1)
CL = None
BIDS = {}
KEEP = []


BUILDER_RIDS = {}     # id(BatchBuilder filled by the application) -> record ids (builders kept alive in KEEP)


def bid_of(batch):
    k = id(batch)
    if k not in BIDS:
        BIDS[k] = len(BIDS)
        KEEP.append(batch)
    return BIDS[k]


def rid_of(value):
    try:
        return int(bytes(value)[1:].split(b"|")[0])
    except Exception:  # noqa: BLE001
        return -1


def txn_state_now():
    """TransactionManager state of the instance whose task is running (observation only)."""
    try:
        return CL.instances_[INST.get()].producer._txn_manager.state.name
    except Exception:  # noqa: BLE001
        return None


def ev(kind, **kw):
    if CL is not None:
        CL.ev(kind, inst=INST.get(), **kw)


def install_wrappers():
    """Observation points installed from outside (no source hooks)."""
    T = TM.TransactionManager
    MB = MA.MessageBatch
    ACC = MA.MessageAccumulator

    def wrap(cls, name, fn):
        orig = getattr(cls, name)

        def w(self, *a, **kw):
            return fn(orig, self, *a, **kw)
        w.__name__ = name
        setattr(cls, name, w)

    def simple(kind, args=None):
        def f(orig, self, *a, **kw):
            r = orig(self, *a, **kw)          # the event is recorded only when the method succeeded
            ev(kind, **(args(self, *a, **kw) if args else {}))
            return r
        return f
    wrap(T, "begin_transaction", simple("c_begin"))
    wrap(T, "committing_transaction", simple("c_committing"))
    wrap(T, "aborting_transaction", simple("c_aborting"))
    wrap(T, "complete_transaction", simple("c_complete"))
    wrap(T, "partition_added", simple("c_partition_added", lambda self, tp: {"p": tp.partition}))
    wrap(T, "consumer_group_added", simple("c_group_added"))

    def error_transaction(orig, self, exc):
        ev("c_error", exc=type(exc).__name__)
        return orig(self, exc)
    wrap(T, "error_transaction", error_transaction)

    def fatal_error(orig, self, exc):
        ev("c_fatal", exc=type(exc).__name__)
        return orig(self, exc)
    wrap(T, "fatal_error", fatal_error)

    def maybe_add(orig, self, tp):
        before = tp in self._pending_txn_partitions or tp in self._txn_partitions
        r = orig(self, tp)
        if self.transactional_id is not None:
            ev("c_maybe_add", p=tp.partition, new=not before)
        return r
    wrap(T, "maybe_add_partition_to_txn", maybe_add)

    def add_offsets(orig, self, offsets, group_id):
        r = orig(self, offsets, group_id)
        ev("c_add_offsets", items=sorted([tp.partition, om.offset] for tp, om in offsets.items()))
        return r
    wrap(T, "add_offsets_to_txn", add_offsets)

    def offset_committed(orig, self, tp, offset, group_id):
        r = orig(self, tp, offset, group_id)
        ev("c_offset_committed", p=tp.partition, off=offset)
        return r
    wrap(T, "offset_committed", offset_committed)

    def set_pid(orig, self, pid, epoch):
        r = orig(self, pid, epoch)
        ev("c_pid", pid=pid, epoch=epoch)
        return r
    wrap(T, "set_pid_and_epoch", set_pid)

    o_append = MB.append

    def append(self, key, value, timestamp_ms, *a, **kw):
        fut = o_append(self, key, value, timestamp_ms, *a, **kw)
        if fut is not None:
            ev("c_accept", p=self.tp.partition, rid=rid_of(value), bid=bid_of(self), newb=self.record_count == 1,
               txn_state=txn_state_now())
        return fut
    MB.append = append
    o_done, o_fail = MB.done, MB.failure

    def done(self, base_offset, timestamp=None, log_start_offset=None, *a, **kw):
        ev("c_ok", p=self.tp.partition, bid=bid_of(self), base_offset=base_offset)
        return o_done(self, base_offset, timestamp, log_start_offset, *a, **kw)

    def failure(self, exception):
        ev("c_fail", p=self.tp.partition, bid=bid_of(self), exc=type(exception).__name__)
        return o_fail(self, exception)
    MB.done, MB.failure = done, failure
    o_noack = MB.done_noack

    def done_noack(self):
        ev("c_ok", p=self.tp.partition, bid=bid_of(self), base_offset=None, empty=self.record_count == 0)
        return o_noack(self)
    MB.done_noack = done_noack
    o_ab = ACC._append_batch

    def _append_batch(self, builder, tp):
        b = o_ab(self, builder, tp)
        rids = BUILDER_RIDS.get(id(builder))
        if rids:       # a batch filled by the application (create_batch()/send_batch()): its records are accepted here
            for j, rid in enumerate(rids):
                ev("c_accept", p=tp.partition, rid=rid, bid=bid_of(b), newb=j == 0, txn_state=txn_state_now())
        return b
    ACC._append_batch = _append_batch
    o_pop, o_re = ACC._pop_batch, ACC.reenqueue

    def _pop_batch(self, tp):
        b = o_pop(self, tp)
        ev("c_drain", p=tp.partition, bid=bid_of(b), n=b.record_count, retry=b.retry_count - 1)
        return b

    def reenqueue(self, batch):
        ev("c_retry", p=batch.tp.partition, bid=bid_of(batch))
        return o_re(self, batch)
    ACC._pop_batch, ACC.reenqueue = _pop_batch, reenqueue
    # the single transactional task: which one the sender picks, and when its body ends
    import functools
    for nm in ("_do_add_partitions_to_txn", "_do_add_offsets_to_txn", "_do_txn_offset_commit", "_do_txn_commit"):
        def mkw(orig, nm=nm):
            @functools.wraps(orig)
            async def w(self, *a, **kw):
                try:
                    return await orig(self, *a, **kw)
                finally:
                    ev("c_txn_done", task=nm)
            return w
        setattr(SN.Sender, nm, mkw(getattr(SN.Sender, nm)))
    o_pick = SN.Sender._maybe_do_transactional_request

    def pick(self):
        t = o_pick(self)
        ev("c_txn_pick", task=t.get_coro().__name__ if t is not None else None)
        return t
    SN.Sender._maybe_do_transactional_request = pick
    o_flush = ACC.flush_for_commit

    async def flush_for_commit(self):
        ev("c_flush_begin", queued=sorted(bid_of(b) for bs in self._batches.values() for b in bs),
           inflight=sorted(bid_of(b) for b in self._pending_batches))
        r = await o_flush(self)
        ev("c_flush_end")
        return r
    ACC.flush_for_commit = flush_for_commit


class Instance:
    def __init__(self, i, spec):
        self.i = i
        self.spec = spec
        self.tasks = set()
        self.transports = set()
        self.dead = False
        self.producer = None
        self.nreq = 0
        self.txns = []
        self.sends = []
        self.status = "not-started"
        self.main = None


def run_scenario(sc):
    global CL
    import random
    rng = random.Random(sc.get("seed", 0))
    out = {"id": sc["id"], "ok": True}
    BIDS.clear()
    KEEP.clear()
    BUILDER_RIDS.clear()
    instances = [Instance(i, s) for i, s in enumerate(sc["instances"])]
    faults = dict(sc.get("faults") or {})
    moves = dict(sc.get("moves") or {})
    loading = dict(sc.get("loading") or {})
    kills = {(k["inst"], k["req"]): k for k in sc.get("kills") or []}
    api_count = {}
    state = {"loading_left": 0, "rid": 0}

    def mk(loop):
        c = SimCluster(loop, n_brokers=sc.get("brokers", 1), rng=rng)
        c.add_topic("t", sc.get("partitions", 2))
        c.txn_coordinator_node = sc.get("txn_coord", 0) % len(c.brokers)
        c.group_coordinator_node = sc.get("group_coord", 0) % len(c.brokers)
        c.tc.marker_delay = sc.get("marker_delay", 0.0)
        for k_, (lo_, hi_) in (sc.get("api_ranges") or {}).items():
            c.api_ranges[int(k_)] = (lo_, hi_)
        lat = sc.get("latency", [0.001, 0.003])
        c.latency = lambda node, api: lat[0] + (lat[1] - lat[0]) * rng.random()

        def fault_for(info):
            api = info["api"]
            n = api_count[api] = api_count.get(api, 0) + 1
            key = f"{api}:{n}"
            info["key"] = key
            client = info.get("client") or ""
            inst = instances[int(client[4:])] if client.startswith("inst") else None
            if inst is not None:
                inst.nreq += 1
                info["inst"] = inst.i
                info["inst_req"] = inst.nreq
                k = kills.get((inst.i, inst.nreq))
                if k is not None and not inst.dead:
                    kill(loop, c, inst, why=f"request #{inst.nreq} ({api})")
                    c.ev("kill_point", inst=inst.i, req=inst.nreq, api=api, applied=bool(k.get("applied")))
                    # the process is gone: either the request never left, or it is applied and the
                    # reply goes nowhere
                    return Fault("no_reply" if k.get("applied") else "no_reply_before")
            mv = moves.get(key)
            if mv:
                if "txn" in mv:
                    c.tc.move(mv["txn"] % len(c.brokers))
                if "group" in mv:
                    c.gc.move(mv["group"] % len(c.brokers), True)
            if key in loading:
                state["loading_left"] = loading[key]
            if state["loading_left"] > 0 and api in ("InitProducerId", "AddPartitionsToTxn", "AddOffsetsToTxn",
                                                     "EndTxn"):
                state["loading_left"] -= 1
                return Fault("error", 14)
            f = faults.get(key)
            if api == "Produce" and f is not None:
                state["produce_faulted"] = True
            if api == "Metadata" and f is None and state.get("produce_faulted") and sc.get("slow_metadata_after_fault"):
                # the metadata refresh that follows a faulted Produce is slow (keeps the re-enqueued batch queued)
                return Fault("delay", 0, sc["slow_metadata_after_fault"])
            if f is None:
                return None
            if api in ("Metadata", "ApiVersions") and f["kind"] == "error":
                return None
            return Fault(f["kind"], f.get("code", 0), f.get("delay", 0.0))
        c.fault_for = fault_for

        # observation of the client's accumulator at the moment an EndTxn reaches the coordinator
        def on_request(info):
            e = info["event"]
            e["key"] = info.get("key")
            e["inst"] = info.get("inst", -1)
            if info["api"] == "EndTxn" and info.get("inst") is not None:
                p = instances[info["inst"]].producer
                if p is not None:
                    acc = p._message_accumulator
                    e["acc_queued"] = sorted(bid_of(b) for bs in acc._batches.values() for b in bs)
                    e["acc_inflight"] = sorted(bid_of(b) for b in acc._pending_batches)
        c.on_request = on_request
        # tag transports with the instance that opened them
        o_connect = c.connect

        async def connect(loop_, protocol_factory, host, port):
            tr, proto = await o_connect(loop_, protocol_factory, host, port)
            i = INST.get()
            if 0 <= i < len(instances):
                instances[i].transports.add(tr)
                if instances[i].dead:
                    cut(tr)
            return tr, proto
        c.connect = connect
        return c

    def cut(tr):
        tr._closing = True      # nothing more is written
        tr._lost = True         # nothing more is delivered

    def kill(loop, net, inst, why=""):
        inst.dead = True
        inst.status = "killed"
        for tr in list(inst.transports):
            cut(tr)
            net.open_transports.discard(tr)
        for t in list(inst.tasks):
            if not t.done():
                t.cancel()
        for rec in inst.txns:
            if rec["outcome"] is None:
                rec["outcome"] = "killed"
        net.ev("kill", inst=inst.i, why=why)

    async def run_instance(loop, net, inst):
        INST.set(inst.i)
        spec = inst.spec
        await asyncio.sleep(spec.get("start_at", 0.0))
        if inst.dead:
            return
        p = AIOKafkaProducer(bootstrap_servers=net.bootstrap(), transactional_id=TID, client_id=f"inst{inst.i}",
                             request_timeout_ms=sc.get("request_timeout_ms", 2000),
                             retry_backoff_ms=sc.get("retry_backoff_ms", 20),
                             linger_ms=sc.get("linger_ms", 0), max_batch_size=sc.get("max_batch_size", 16384),
                             transaction_timeout_ms=60000)
        inst.producer = p
        inst.status = "starting"
        try:
            await p.start()
        except asyncio.CancelledError:
            raise
        except BaseException as e:  # noqa: BLE001
            inst.status = "start-failed:" + type(e).__name__
            net.ev("app_start_failed", inst=inst.i, exc=type(e).__name__)
            return
        inst.status = "running"
        net.ev("app_started", inst=inst.i, pid=p._txn_manager.producer_id, epoch=p._txn_manager.producer_epoch)
        for k, txn in enumerate(spec["txns"]):
            if inst.dead:
                break
            rec = {"inst": inst.i, "k": k, "items": [], "offsets": [], "want": txn["end"], "outcome": None,
                   "commit_requested": False, "abort_requested": False, "exc": None,
                   "epoch": p._txn_manager.producer_epoch}
            inst.txns.append(rec)
            futs = []

            prebuilt = {}
            for items0 in txn["tasks"]:
                for it0 in items0:
                    if it0.get("batch") and it0.get("prebuilt"):
                        prebuilt[id(it0)] = p.create_batch()      # outside any transaction

            async def sender_task(items, rec=rec, futs=futs, prebuilt=prebuilt):
                for it in items:
                    if it.get("sleep"):
                        await asyncio.sleep(it["sleep"])
                    if it.get("batch"):
                        # the batch API: create_batch() + send_batch(); optionally the application cancels the
                        # returned future (e.g. a wait_for() that timed out) `cancel_after` seconds later
                        # ("prebuilt": the application created the builder before begin_transaction())
                        builder = prebuilt.pop(id(it), None) or p.create_batch()
                        rids, srecs = [], []
                        for _ in range(it.get("n", 1)):
                            state["rid"] += 1
                            rid = state["rid"]
                            builder.append(key=b"k%d" % rid, value=b"r%d|" % rid + b"x" * it.get("size", 0),
                                           timestamp=None)
                            rids.append(rid)
                            srec = {"rid": rid, "p": it["p"], "inst": inst.i, "k": rec["k"], "state": "call",
                                    "batch_api": True}
                            srecs.append(srec)
                            inst.sends.append(srec)
                        BUILDER_RIDS[id(builder)] = rids
                        KEEP.append(builder)
                        try:
                            fut = await p.send_batch(builder, "t", partition=it["p"])
                        except asyncio.CancelledError:
                            raise
                        except BaseException as e:  # noqa: BLE001
                            for srec in srecs:
                                srec["state"] = "refused"
                                srec["exc"] = type(e).__name__
                                net.ev("app_send_refused", inst=inst.i, k=rec["k"], rid=srec["rid"], p=it["p"],
                                       exc=type(e).__name__, txn_state=p._txn_manager.state.name)
                            raise
                        for srec in srecs:
                            srec["state"] = "accepted"
                            srec["fut"] = fut
                            rec["items"].append([srec["rid"], it["p"]])
                            net.ev("app_send", inst=inst.i, k=rec["k"], rid=srec["rid"], p=it["p"], batch_api=True)
                        if it.get("cancel_after") is not None:
                            def cancel(fut=fut, rids=rids):
                                if not fut.done():
                                    net.ev("app_cancel_future", inst=inst.i, k=rec["k"], rids=rids)
                                    fut.cancel()
                            loop.call_later(it["cancel_after"], cancel)
                        else:
                            futs.append(fut)
                        continue
                    for _ in range(it.get("n", 1)):
                        state["rid"] += 1
                        rid = state["rid"]
                        val = b"r%d|" % rid + b"x" * it.get("size", 0)
                        srec = {"rid": rid, "p": it["p"], "inst": inst.i, "k": rec["k"], "state": "call"}
                        inst.sends.append(srec)
                        try:
                            fut = await p.send("t", val, key=b"k%d" % rid, partition=it["p"])
                        except asyncio.CancelledError:
                            raise
                        except BaseException as e:  # noqa: BLE001
                            srec["state"] = "refused"
                            srec["exc"] = type(e).__name__
                            net.ev("app_send_refused", inst=inst.i, k=rec["k"], rid=rid, p=it["p"],
                                   exc=type(e).__name__, txn_state=p._txn_manager.state.name)
                            raise
                        srec["state"] = "accepted"
                        srec["fut"] = fut
                        rec["items"].append([rid, it["p"]])
                        net.ev("app_send", inst=inst.i, k=rec["k"], rid=rid, p=it["p"])
                        futs.append(fut)

            async def offsets_again(rec=rec, txn=txn):
                await asyncio.sleep(txn["offsets"]["again"])
                offs2 = {TopicPartition("t", q): o + 500 for q, o in txn["offsets"]["items"]}
                await p.send_offsets_to_transaction(offs2, GROUP)
                rec["offsets"] += [[q, o + 500] for q, o in txn["offsets"]["items"]]
                net.ev("app_offsets_ok", inst=inst.i, k=rec["k"], again=True)

            async def offsets_task(rec=rec, txn=txn):
                offs = {TopicPartition("t", q): o for q, o in txn["offsets"]["items"]}
                if txn["offsets"].get("again") is not None:
                    res = await asyncio.gather(p.send_offsets_to_transaction(offs, GROUP), offsets_again(),
                                               return_exceptions=True)
                    rec["offsets"] += [[q, o] for q, o in txn["offsets"]["items"]]
                    net.ev("app_offsets_ok", inst=inst.i, k=rec["k"], items=txn["offsets"]["items"])
                    for r_ in res:
                        if isinstance(r_, BaseException):
                            raise r_
                    return
                await p.send_offsets_to_transaction(offs, GROUP)
                rec["offsets"] += [[q, o] for q, o in txn["offsets"]["items"]]
                net.ev("app_offsets_ok", inst=inst.i, k=rec["k"], items=txn["offsets"]["items"])
                again = txn["offsets"].get("again")
                if again is not None:
                    # a second, concurrent send_offsets_to_transaction() for the SAME group and partitions with newer
                    # offsets (+500), issued `again` seconds after the first call started (its requests may be in flight)
                    pass
                for gi, g2 in enumerate(txn["offsets"].get("more_groups") or []):
                    # the same transaction commits offsets of further consumer groups (own offset values: +1000 each)
                    offs2 = {TopicPartition("t", q): o + 1000 * (gi + 1) for q, o in txn["offsets"]["items"]}
                    await p.send_offsets_to_transaction(offs2, g2)
                    rec["offsets"] += [[q, o + 1000 * (gi + 1)] for q, o in txn["offsets"]["items"]]
                    net.ev("app_offsets_ok", inst=inst.i, k=rec["k"], group=g2)

            bg = []

            async def body_early(rec=rec, txn=txn, futs=futs, bg=bg):
                # the application fires its sends and ends the transaction without waiting for them
                off = txn.get("offsets")
                if off and off["at"] == "before":
                    await offsets_task()
                for items in txn["tasks"]:
                    bg.append(asyncio.ensure_future(sender_task(items)))
                if off and off["at"] != "before":
                    bg.append(asyncio.ensure_future(offsets_task()))
                await asyncio.sleep(txn["end_after"])

            async def collect(rec=rec, bg=bg):
                if not bg:
                    return
                res = await asyncio.gather(*bg, return_exceptions=True)
                rec["task_errors"] = [type(r).__name__ for r in res if isinstance(r, BaseException)]

            async def body(rec=rec, txn=txn, futs=futs):
                if txn.get("end_after") is not None:
                    return await body_early()
                off = txn.get("offsets")
                if off and off["at"] == "before":
                    await offsets_task()
                coros = [sender_task(items) for items in txn["tasks"]]
                if off and off["at"] == "concurrent":
                    coros.append(offsets_task())
                res = await asyncio.gather(*coros, return_exceptions=True)
                for r in res:
                    if isinstance(r, BaseException):
                        raise r
                if off and off["at"] == "after":
                    await offsets_task()
                if txn.get("await_sends"):
                    for f in futs:
                        await f
            fatal = False
            try:
                await p.begin_transaction()
                net.ev("app_begin", inst=inst.i, k=k)
                try:
                    await body()
                    if txn["end"] == "commit":
                        rec["commit_requested"] = True
                        net.ev("app_commit_call", inst=inst.i, k=k)
                        await p.commit_transaction()
                        rec["outcome"] = "committed"
                        net.ev("app_commit_ok", inst=inst.i, k=k)
                    else:
                        rec["abort_requested"] = True
                        net.ev("app_abort_call", inst=inst.i, k=k)
                        await p.abort_transaction()
                        rec["outcome"] = "aborted"
                        net.ev("app_abort_ok", inst=inst.i, k=k)
                except asyncio.CancelledError:
                    raise
                except BaseException as e:  # noqa: BLE001
                    # the documented pattern (TransactionContext.__aexit__): abort unless the error is fatal
                    rec["exc"] = type(e).__name__
                    net.ev("app_exc", inst=inst.i, k=k, exc=type(e).__name__, msg=str(e)[:60])
                    if p._txn_manager.is_fatal_error():
                        rec["outcome"] = "failed"
                        fatal = True
                    else:
                        rec["abort_requested"] = True
                        net.ev("app_abort_call", inst=inst.i, k=k)
                        await p.abort_transaction()
                        rec["outcome"] = "aborted"
                        net.ev("app_abort_ok", inst=inst.i, k=k)
            except asyncio.CancelledError:
                raise
            except BaseException as e:  # noqa: BLE001
                rec["exc2"] = type(e).__name__
                rec["outcome"] = "failed"
                net.ev("app_failed", inst=inst.i, k=k, exc=type(e).__name__, msg=str(e)[:60])
                fatal = True
            try:
                await collect()
            except asyncio.CancelledError:
                raise
            if fatal:
                inst.status = "fatal"
                break
            if txn.get("pause"):
                await asyncio.sleep(txn["pause"])
        if not inst.dead and inst.status == "running":
            inst.status = "finished"
        if not inst.dead:
            try:
                await asyncio.wait_for(p.stop(), timeout=60)
            except asyncio.CancelledError:
                raise
            except BaseException as e:  # noqa: BLE001
                net.ev("app_stop_failed", inst=inst.i, exc=type(e).__name__)

    async def scenario(loop, net):
        global CL
        CL = net
        net.instances_ = instances
        # every task created while INST is set belongs to that instance
        def factory(loop_, coro, **kw):
            t = asyncio.Task(coro, loop=loop_, **kw)
            i = INST.get()
            if 0 <= i < len(instances):
                instances[i].tasks.add(t)
            return t
        loop.set_task_factory(factory)
        mains = []
        for inst in instances:
            tok = INST.set(inst.i)
            inst.main = asyncio.ensure_future(run_instance(loop, net, inst))
            INST.reset(tok)
            mains.append(inst.main)
        await asyncio.wait(mains, timeout=sc.get("run_within", 600.0))
        out["unfinished"] = [i.i for i in instances if not i.main.done()]
        net.ev("quiet_begin")
        await asyncio.sleep(sc.get("quiet", 5.0))
        # ---- ground truth
        out["instances"] = [{"i": i.i, "status": i.status, "nreq": i.nreq,
                             "state": i.producer._txn_manager.state.name if i.producer else None} for i in instances]
        out["txns"] = [t for i in instances for t in i.txns]
        sends = []
        for i in instances:
            for s in i.sends:
                r = {k: v for k, v in s.items() if k != "fut"}
                f = s.get("fut")
                if f is not None:
                    if not f.done():
                        r["state"] = "pending"
                    elif f.cancelled():
                        r["state"] = "cancelled"
                    elif f.exception() is not None:
                        r["state"] = "error"
                        r["exc"] = type(f.exception()).__name__
                    else:
                        r["state"] = "ok"
                        r["offset"] = f.result().offset
                sends.append(r)
        out["sends"] = sends
        logs = {}
        for part, lg in net.topics["t"].items():
            bs = []
            for b in lg.batches:
                d = {"base": b.base_offset, "last": b.last_offset, "pid": b.pid, "epoch": b.epoch,
                     "txn": bool(b.transactional), "control": bool(b.control), "seq": b.base_seq}
                if b.control:
                    import struct
                    d["marker"] = struct.unpack(">hh", b.records[0]["key"])[1]     # 0 abort, 1 commit
                else:
                    d["rids"] = [rid_of(r["value"]) for r in b.records]
                bs.append(d)
            logs[part] = {"batches": bs, "lso": lg.lso, "next": lg.next_offset,
                          "open_txn": {str(k): v for k, v in lg.open_txn.items()},
                          "aborted": [list(a) for a in lg.aborted],
                          "arrivals": [{k: v for k, v in a.items() if k not in ("keys",)} |
                                       {"rids": [int(k[1:]) for k in a.get("keys", []) if k]} for a in lg.arrivals]}
        out["logs"] = logs
        t = net.tc.by_id.get(TID)
        out["coord"] = {"state": t.state, "epoch": t.epoch, "pid": t.pid,
                        "partitions": sorted(list(x) for x in t.partitions), "groups": sorted(t.groups),
                        "history": t.history} if t else None
        out["client_violations"] = list(net.tc.client_violations)
        g = net.gc.groups.get(GROUP)
        out["group_offsets"] = {str(k[1]): v[0] for k, v in (g.offsets.items() if g else [])}
        out["group_commit_log"] = [{k: v for k, v in c.items() if k in ("partition", "offset", "txn", "t")}
                                   for gx in net.gc.groups.values() for c in gx.commit_log]
        keep = ("request", "arrive", "init_pid", "txn_add_partitions", "txn_add_offsets", "txn_offset_commit",
                "txn_prepare", "txn_end", "txn_fence", "txn_coordinator_move", "coordinator_move", "kill",
                "kill_point", "quiet_begin", "reply")
        tr = []
        for e in net.trace:
            k = e["ev"]
            if k.startswith("c_") or k.startswith("app_") or k in keep:
                if k == "request" and e["api"] in ("Metadata", "ApiVersions"):
                    continue
                if k == "reply" and e["api"] in ("Metadata", "ApiVersions", "Fetch"):
                    continue
                e = dict(e)
                e.pop("cls", None)
                tr.append(e)
        out["trace"] = tr
        out["vtime"] = loop.time()
        out["n_requests"] = net.req_ordinal
        out["api_count"] = dict(api_count)
        CL = None
        return out

    try:
        return run_sim(scenario, mk, max_vtime=sc.get("max_vtime", 3600.0), seed=sc.get("seed", 0))
    except SimDeadlock as e:
        CL = None
        return {"id": sc["id"], "ok": False, "error": "SimDeadlock: " + str(e)}
    except Exception as e:  # noqa: BLE001
        CL = None
        return {"id": sc["id"], "ok": False, "error": type(e).__name__ + ": " + str(e),
                "tb": traceback.format_exc()[-1500:]}


def main():
    req = json.load(sys.stdin)
    install_wrappers()
    results = [run_scenario(sc) for sc in req["scenarios"]]
    print(json.dumps({"results": results},
                     default=lambda o: o.decode("latin1") if isinstance(o, bytes) else str(o)))


if __name__ == "__main__":
    import logging
    logging.disable(logging.CRITICAL)
    main()
