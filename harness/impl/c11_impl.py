"""Runs under /venv/bin/python with PYTHONPATH=/repo: drives the real aiokafka.protocol classes
for the C11 check.  JSON request on stdin, JSON reply on the last stdout line.

Modes (keys of the request object):
  describe   -> every Struct subclass / extra schema / primitive type with its type tree,
                every Request builder with its _CLASSES and constructor signature
  codec      -> [{"s": struct-or-prim name, "v": value}] : encode, decode (with a trailer), compare
  negotiate  -> [{"builder": name, "combos": [[param,...],...]}] : prepare() over all ranges
  reply      -> [{"req": request struct, "resp": response struct, "v": value, "flex": bool}] :
                what conn.py does with a reply (parse_response_header, RESPONSE_TYPE.decode)
  golden     -> [{"builder", "ver", "present"}] : header + body bytes of the request built for
                exactly that version (compared with the Kafka table encoding of the expected content)
  probes     -> fixed probes of the primitive codecs (outside-the-domain behaviour)

Value JSON (type-directed): ints as ints, Float64 as its 64 bit pattern (int), Boolean as
bool, String as str/null, Bytes as hex/null, TaggedFields as [[tag, hex],...] in dict order,
Array as list/null, Schema as list.
"""
import importlib
import inspect
import io
import json
import pkgutil
import re
import struct
import sys

import aiokafka.protocol as P
from aiokafka.protocol import api
from aiokafka.protocol import types as T
from aiokafka.protocol.struct import Struct

for _m in pkgutil.iter_modules(P.__path__):
    importlib.import_module("aiokafka.protocol." + _m.name)
for _n in ("aiokafka.coordinator.protocol", "aiokafka.coordinator.assignors.sticky.sticky_assignor"):
    try:
        importlib.import_module(_n)
    except ImportError:
        pass
from aiokafka.protocol import message as M  # noqa: E402

TRAILER = b"\xa5\x5a"

PRIM_CLASSES = ["Int8", "Int16", "Int32", "Int64", "UInt32", "Boolean", "Float64", "Bytes",
                "UnsignedVarInt32", "VarInt32", "VarInt64", "CompactBytes", "TaggedFields"]


def subs(c):
    out, seen = [], set()

    def go(k):
        for s in k.__subclasses__():
            if s not in seen:
                seen.add(s)
                out.append(s)
                go(s)
    go(c)
    return out


def tree(t):
    if isinstance(t, type):
        for n in PRIM_CLASSES:
            if t is getattr(T, n, None):
                return {"k": n}
        return {"k": "?" + repr(t)}
    k = type(t)
    if k is T.Schema:
        return {"k": "Schema", "fields": [[n, tree(f)] for n, f in zip(t.names, t.fields)]}
    if k is T.Array:
        return {"k": "Array", "of": tree(t.array_of)}
    if k is T.CompactArray:
        return {"k": "CompactArray", "of": tree(t.array_of)}
    if k is T.String:
        return {"k": "String", "enc": t.encoding}
    if k is T.CompactString:
        return {"k": "CompactString", "enc": t.encoding}
    return {"k": "?" + repr(t)}


def f64_of_bits(b):
    return struct.unpack(">d", int(b).to_bytes(8, "big"))[0]


def bits_of_f64(x):
    return int.from_bytes(struct.pack(">d", x), "big")


def to_py(tr, j):
    k = tr["k"]
    if k in ("Int8", "Int16", "Int32", "Int64", "UInt32", "UnsignedVarInt32", "VarInt32", "VarInt64"):
        return int(j)
    if k == "Boolean":
        return bool(j)
    if k == "Float64":
        return f64_of_bits(j)
    if k in ("String", "CompactString"):
        return j
    if k in ("Bytes", "CompactBytes"):
        return None if j is None else bytes.fromhex(j)
    if k == "TaggedFields":
        return {int(a): bytes.fromhex(b) for a, b in j}
    if k in ("Array", "CompactArray"):
        return None if j is None else [to_py(tr["of"], x) for x in j]
    if k == "Schema":
        return tuple(to_py(f, x) for (_, f), x in zip(tr["fields"], j))
    raise ValueError("to_py: " + k)


def from_py(tr, v):
    k = tr["k"]
    if k in ("Int8", "Int16", "Int32", "Int64", "UInt32", "UnsignedVarInt32", "VarInt32", "VarInt64"):
        if type(v) is not int:
            return {"!type": type(v).__name__, "repr": repr(v)[:80]}
        return v
    if k == "Boolean":
        if type(v) is not bool:
            return {"!type": type(v).__name__, "repr": repr(v)[:80]}
        return v
    if k == "Float64":
        return bits_of_f64(v)
    if k in ("String", "CompactString"):
        if v is not None and type(v) is not str:
            return {"!type": type(v).__name__}
        return v
    if k in ("Bytes", "CompactBytes"):
        return None if v is None else bytes(v).hex()
    if k == "TaggedFields":
        return [[a, bytes(b).hex()] for a, b in v.items()]
    if k in ("Array", "CompactArray"):
        return None if v is None else [from_py(tr["of"], x) for x in v]
    if k == "Schema":
        return [from_py(f, x) for (_, f), x in zip(tr["fields"], v)]
    raise ValueError("from_py: " + k)


# ----------------------------------------------------------------------------------- registry
def registry():
    reqs = subs(api.RequestStruct)
    resps = subs(api.Response)
    others = [c for c in subs(Struct) if c not in reqs and c not in resps
              and c not in (api.RequestStruct, api.Response)]
    reg = {}
    for c in reqs:
        reg[c.__name__] = ("request", c, c.SCHEMA)
    for c in resps:
        reg[c.__name__] = ("response", c, c.SCHEMA)
    for c in others:
        reg[c.__name__] = ("aux", c, c.SCHEMA)
    if hasattr(M, "Message") and hasattr(M.Message, "SCHEMAS"):
        for i, s in enumerate(M.Message.SCHEMAS):
            reg[f"Message_SCHEMAS_{i}"] = ("schema", None, s)
    if hasattr(M, "MessageSet") and hasattr(M.MessageSet, "ITEM"):
        reg["MessageSet_ITEM"] = ("schema", None, M.MessageSet.ITEM)
    return reg


REG = registry()


def prim_type(name):
    if name == "String":
        return T.String("utf-8")
    if name == "CompactString":
        return T.CompactString("utf-8")
    return getattr(T, name)


def name_ver(n):
    m = re.search(r"_v(\d+)$", n)
    return int(m.group(1)) if m else -1


def describe():
    out = {"structs": [], "builders": [], "prims": []}
    for n, (kind, c, schema) in REG.items():
        e = {"name": n, "kind": kind, "tree": tree(schema), "name_ver": name_ver(n)}
        if kind in ("request", "response"):
            e["key"] = c.API_KEY
            e["ver"] = c.API_VERSION
        if kind == "request":
            e["flex"] = bool(c.FLEXIBLE_VERSION)
            e["resp"] = c.RESPONSE_TYPE.__name__
        # structs whose constructor is not Struct's are driven through their SCHEMA
        e["schema_level"] = (c is None) or (c.__init__ is not Struct.__init__) \
            or ("encode" in c.__dict__) or ("decode" in c.__dict__)
        out["structs"].append(e)
    for n in PRIM_CLASSES + ["String", "CompactString"]:
        if n in ("String", "CompactString") or hasattr(T, n):
            out["prims"].append({"name": n, "tree": tree(prim_type(n))})
    for b in subs(api.Request):
        out["builders"].append({
            "name": b.__name__, "key": b.API_KEY, "allow_unknown": bool(b.ALLOW_UNKNOWN_API_VERSION),
            "classes": [[c.__name__, c.API_VERSION] for c in b._CLASSES],
            "params": [p for p in inspect.signature(b.__init__).parameters if p != "self"],
        })
    return out


# ----------------------------------------------------------------------------------- codec
def exc_name(e):
    return type(e).__name__


def codec_one(case):
    name = case["s"]
    res = {}
    if name.startswith("prim:"):
        ty = prim_type(name[5:])
        tr = tree(ty)
        try:
            val = to_py(tr, case["v"])
            data = ty.encode(val)
        except Exception as e:  # noqa: BLE001
            return {"exc": exc_name(e)}
        res["enc"] = data.hex()
        bio = io.BytesIO(data + TRAILER)
        try:
            back = ty.decode(bio)
            res["dec"] = from_py(tr, back)
            res["rest_ok"] = bio.read() == TRAILER
        except Exception as e:  # noqa: BLE001
            res["dec_exc"] = exc_name(e)
        return res
    kind, cls, schema = REG[name]
    tr = tree(schema)
    schema_level = (cls is None) or (cls.__init__ is not Struct.__init__) \
        or ("encode" in cls.__dict__) or ("decode" in cls.__dict__)
    try:
        vals = to_py(tr, case["v"])
        if schema_level:
            data = schema.encode(vals)
        else:
            data = cls(*vals).encode()
    except Exception as e:  # noqa: BLE001
        return {"exc": exc_name(e)}
    res["enc"] = data.hex()
    bio = io.BytesIO(data + TRAILER)
    try:
        if schema_level:
            back = schema.decode(bio)
        else:
            obj = cls.decode(bio)
            back = tuple(obj.__dict__[n] for n in schema.names)
        res["dec"] = from_py(tr, back)
        res["rest_ok"] = bio.read() == TRAILER
    except Exception as e:  # noqa: BLE001
        res["dec_exc"] = exc_name(e)
    return res


# ----------------------------------------------------------------------------------- builders
def make_builder(name, present):
    """Instantiate builder `name`; `present` = set of parameter names (model/C11Negotiate.v)
    that take a non-default value."""
    p = present
    tid = "tx-1" if "PTransactionalId" in p else None
    iso = 1 if "PIsolationLevel" in p else 0
    args = {
        "ApiVersionRequest": lambda: (),
        "CreateTopicsRequest": lambda: ([("t", 1, 1, [], [])], 1000, "PValidateOnly" in p),
        "DeleteTopicsRequest": lambda: (["t"], 1000),
        "ListGroupsRequest": lambda: (),
        "DescribeGroupsRequest": lambda: (["g"], "PAuthorizedOps" in p),
        "SaslHandShakeRequest": lambda: ("PLAIN",),
        "DescribeAclsRequest": lambda: (2, "t", 4 if "PPatternType" in p else 3, "User:a", "*", 2, 3),
        "CreateAclsRequest": lambda: (2, "t", 4 if "PPatternType" in p else 3, "User:a", "*", 2, 3),
        "DeleteAclsRequest": lambda: (2, "t", 4 if "PPatternType" in p else 3, "User:a", "*", 2, 3),
        "AlterConfigsRequest": lambda: ([(2, "t", [("k", "v")])], False),
        "DescribeConfigsRequest": lambda: ([(2, "t", None)], "PIncludeSynonyms" in p),
        "SaslAuthenticateRequest": lambda: (b"auth",),
        "CreatePartitionsRequest": lambda: ([("t", (3, [[1]]))], 1000, False),
        "DeleteGroupsRequest": lambda: (["g"],),
        "DescribeClientQuotasRequest": lambda: ([("user", 0, "u")], False),
        "AlterPartitionReassignmentsRequest": lambda: (1000, [("t", [(0, [1, 2], {})], {})], {}),
        "ListPartitionReassignmentsRequest": lambda: (1000, [("t", [0], {})], {}),
        "DeleteRecordsRequest": lambda: ([("t", [(0, 5)])], 1000, ({7: b"x"} if "PTags" in p else None)),
        "FindCoordinatorRequest": lambda: ("g", 1 if "PCoordinatorType" in p else 0),
        "MetadataRequest": lambda: (["t"], False if "PNoAutoTopicCreation" in p else None),
        "ProduceRequest": lambda: (tid, 1, 1000, [("t", [(0, b"records")])]),
        "FetchRequest": lambda: (100, 1, 1000, iso, [("t", [(0, 7, 100)])], "rack-a" if "PRackId" in p else ""),
        "OffsetRequest": lambda: (-1, iso, offset_topics(1234567 if "PTimestampSearch" in p else -1)),
        "OffsetCommitRequest": lambda: ("g", 1, "m", -1, [("t", [(0, 5, "meta")])]),
        "OffsetFetchRequest": lambda: ("g", None if "PPartitionsOmitted" in p else [("t", [0])]),
        "JoinGroupRequest": lambda: ("g", 1000, 2000, "m", "inst-1" if "PGroupInstanceId" in p else None,
                                     "consumer", [("range", b"md")]),
        "SyncGroupRequest": lambda: ("g", 1, "m", "inst-1" if "PGroupInstanceId" in p else None,
                                     [("m", b"as")]),
        "HeartbeatRequest": lambda: ("g", 1, "m"),
        "LeaveGroupRequest": lambda: ("g", "m"),
        "InitProducerIdRequest": lambda: ("tx", 1000),
        "AddPartitionsToTxnRequest": lambda: ("tx", 1, 0, [("t", [0])]),
        "AddOffsetsToTxnRequest": lambda: ("tx", 1, 0, "g"),
        "EndTxnRequest": lambda: ("tx", 1, 0, True),
        "TxnOffsetCommitRequest": lambda: ("tx", "g", 1, 0, [("t", [(0, 5, "meta")])]),
    }
    cls = {b.__name__: b for b in subs(api.Request)}[name]
    if name not in args:
        raise KeyError(f"no argument recipe for builder {name}")
    return cls(*args[name]())


_SHAPE = [0]
_SHAPE_RNG = __import__("random").Random(11)
MULTI = [False]      # set by negotiate(): vary the request shape (golden() compares bytes of the fixed shape)


def offset_topics(ts):
    """ListOffsets topics with the (possibly real) timestamp at different places of a multi-topic request: the
    builder's guard has to look at every partition of every topic"""
    if not MULTI[0]:
        return [("t", [(0, ts)])]
    _SHAPE[0] += 1
    k = _SHAPE_RNG.randrange(4)         # (a fixed cycle would give one combination always the same shape)
    if k == 0:
        return [("t", [(0, ts)])]
    if k == 1:
        return [("t", [(0, ts), (1, -1)]), ("u", [(0, -1)])]
    if k == 2:
        return [("t", [(0, -1)]), ("u", [(0, -2), (1, ts)])]
    return [("a", [(0, -1)]), ("t", [(0, ts)]), ("z", [])]


# marker values: where a present parameter must be found in the decoded request
MARKERS = {
    "PTransactionalId": ("transactional_id", "tx-1"),
    "PIsolationLevel": ("isolation_level", 1),
    "PCoordinatorType": ("coordinator_type", 1),
    "PTimestampSearch": ("timestamp", 1234567),
    "PAuthorizedOps": ("include_authorized_operations", True),
    "PPartitionsOmitted": ("topics", None),
    "PValidateOnly": ("validate_only", True),
    "PIncludeSynonyms": ("include_synonyms", True),
    "PTags": ("tags", [[7, "78"]]),
    "PNoAutoTopicCreation": ("allow_auto_topic_creation", False),
    "PGroupInstanceId": ("group_instance_id", "inst-1"),
    "PRackId": ("rack_id", "rack-a"),
    "PPatternType": ("resource_pattern_type_filter", 4),
}


def find_field(tr, val, fname):
    """all values of fields called `fname` anywhere in the (type tree, JSON value)"""
    out = []
    k = tr["k"]
    if k == "Schema" and val is not None:
        for (n, f), x in zip(tr["fields"], val):
            if n == fname:
                out.append(x)
            out += find_field(f, x, fname)
    elif k in ("Array", "CompactArray") and val is not None:
        for x in val:
            out += find_field(tr["of"], x, fname)
    return out


def outcome(builder, versions, present):
    try:
        st = builder.prepare(versions)
    except Exception as e:  # noqa: BLE001
        return {"exc": exc_name(e)}
    cls = type(st)
    res = {"cls": cls.__name__, "ver": cls.API_VERSION}
    try:
        hdr = st.build_request_header(correlation_id=77, client_id="c11")
        hb = hdr.encode()
        k, v, corr = struct.unpack(">hhi", hb[:8])
        res["hdr"] = [k, v, corr, type(hdr).__name__]
        body = st.encode()
        tr = tree(cls.SCHEMA)
        back = cls.decode(io.BytesIO(body))
        j = from_py(tr, tuple(back.__dict__[n] for n in cls.SCHEMA.names))
        carried = {}
        for pn in present:
            fname, marker = MARKERS[pn]
            carried[pn] = marker in find_field(tr, j, fname)
        res["carried"] = carried
    except Exception as e:  # noqa: BLE001
        res["post_exc"] = exc_name(e) + ": " + str(e)[:100]
    return res


def adv_list(maxv):
    advs = [None]
    for lo in range(maxv + 1):
        for hi in range(lo, maxv + 1):
            advs.append((lo, hi))
    return advs


def negotiate(reqs, maxv):
    out = {}
    MULTI[0] = True
    for r in reqs:
        name = r["builder"]
        rows = []
        for adv in adv_list(maxv):
            row = []
            for combo in r["combos"]:
                try:
                    b = make_builder(name, set(combo))
                except Exception as e:  # noqa: BLE001
                    row.append({"ctor_exc": exc_name(e) + ": " + str(e)[:100]})
                    continue
                versions = {} if adv is None else {b.API_KEY: adv}
                versions[9999] = (0, 0)
                row.append(outcome(b, versions, combo))
            rows.append(row)
        out[name] = rows
    MULTI[0] = False
    return out


def golden(reqs):
    """[{"builder", "ver", "present"}] -> header and body bytes of the request the builder makes when the
    broker advertises exactly that version"""
    out = []
    for r in reqs:
        try:
            # where the request must be refused (a timestamp search on a v0-only broker) the shape is varied too
            MULTI[0] = "PTimestampSearch" in r["present"] and r["ver"] == 0
            b = make_builder(r["builder"], set(r["present"]))
            MULTI[0] = False
            st = b.prepare({b.API_KEY: (r["ver"], r["ver"])})
            hdr = st.build_request_header(correlation_id=77, client_id="c11")
            out.append({"cls": type(st).__name__, "hdr": hdr.encode().hex(), "body": st.encode().hex(),
                        "flex": bool(st.FLEXIBLE_VERSION)})
        except Exception as e:  # noqa: BLE001
            out.append({"exc": exc_name(e) + ": " + str(e)[:120]})
    return out


def synthetic(lists, maxv):
    """Request.prepare on made-up builders: for each (versions, allow_unknown) a Request subclass
    whose _CLASSES carry exactly these API_VERSIONs, driven over every advertised range."""
    import functools
    import operator
    import types as pytypes
    out = []
    for n, (vers, allow) in enumerate(lists):
        classes = []
        for j, v in enumerate(vers):
            classes.append(type(f"Syn{n}Req_{j}", (api.RequestStruct,), {
                "API_KEY": 900 + n, "API_VERSION": v, "RESPONSE_TYPE": api.Response, "SCHEMA": T.Schema()}))
        union = classes[0] if len(classes) == 1 else functools.reduce(operator.or_, classes)
        B = pytypes.new_class(f"Syn{n}", (api.Request[union],), {}, lambda ns, allow=allow, n=n: ns.update(
            API_KEY=900 + n, ALLOW_UNKNOWN_API_VERSION=allow, build=lambda self, c: c))
        rows = []
        for adv in adv_list(maxv):
            try:
                c = B().prepare({} if adv is None else {900 + n: adv})
                rows.append(list(B._CLASSES).index(c))
            except Exception as e:  # noqa: BLE001
                rows.append({"IncompatibleBrokerVersion": -1, "NotImplementedError": -2, "IndexError": -3}.get(
                    exc_name(e), exc_name(e)))
        out.append(rows)
    return out


# ----------------------------------------------------------------------------------- replies
def uvarint(n):
    out = bytearray()
    while True:
        b = n & 0x7F
        n >>= 7
        if n:
            out.append(b | 0x80)
        else:
            out.append(b)
            return bytes(out)


def reply_one(case):
    kind, rcls, _ = REG[case["req"]]
    _, pcls, pschema = REG[case["resp"]]
    ptree = tree(pschema)
    res = {}
    try:
        body = pcls(*to_py(ptree, case["v"])).encode()
    except Exception as e:  # noqa: BLE001
        return {"gen_exc": exc_name(e)}
    corr = case.get("corr", 4242)
    header = struct.pack(">i", corr)
    if case["flex"]:
        # response header v1: correlation id + tagged fields (KIP-482: a client skips the tags it does not know)
        tags = case.get("hdr_tags") or []
        header += uvarint(len(tags)) + b"".join(uvarint(t) + uvarint(len(bytes.fromhex(h))) + bytes.fromhex(h)
                                                  for t, h in tags)
    bio = io.BytesIO(header + body + TRAILER)
    try:
        req = rcls()
        h = req.parse_response_header(bio)
        res["corr"] = h.correlation_id
        res["hdr_cls"] = type(h).__name__
        rt = req.RESPONSE_TYPE
        res["resp_type"] = rt.__name__
        obj = rt.decode(bio)
        rtree = tree(rt.SCHEMA)
        res["dec"] = from_py(rtree, tuple(obj.__dict__[n] for n in rt.SCHEMA.names))
        res["rest_ok"] = bio.read() == TRAILER
    except Exception as e:  # noqa: BLE001
        res["exc"] = exc_name(e)
    return res


# ----------------------------------------------------------------------------------- probes
def probes():
    out = {}

    def rt(ty, v):
        try:
            data = ty.encode(v)
        except Exception as e:  # noqa: BLE001
            return {"exc": exc_name(e)}
        try:
            back = ty.decode(io.BytesIO(data))
        except Exception as e:  # noqa: BLE001
            return {"enc": data.hex(), "dec_exc": exc_name(e)}
        if isinstance(back, dict):
            back = [[k, b.hex()] for k, b in back.items()]
        return {"enc": data.hex(), "dec": back}
    out["varint32"] = {str(v): rt(T.VarInt32, v) for v in (-1, -2, 63, 64, -64, -65, 2**31 - 1, -2**31)}
    out["varint64"] = {str(v): rt(T.VarInt64, v) for v in (-1, 63, 64, 300, 2**31, 2**63 - 1, -2**63)}
    out["tagged_tag0"] = rt(T.TaggedFields, {0: b"x"})
    out["tagged_unsorted"] = rt(T.TaggedFields, {2: b"a", 1: b"b"})
    out["tagged_sorted"] = rt(T.TaggedFields, {1: b"b", 2: b"a"})
    return out


def main():
    req = json.load(sys.stdin)
    out = {}
    if "describe" in req:
        out["describe"] = describe()
    if "codec" in req:
        out["codec"] = [codec_one(c) for c in req["codec"]]
    if "negotiate" in req:
        out["negotiate"] = negotiate(req["negotiate"], req.get("maxv", 13))
    if "reply" in req:
        out["reply"] = [reply_one(c) for c in req["reply"]]
    if "golden" in req:
        out["golden"] = golden(req["golden"])
    if "synthetic" in req:
        out["synthetic"] = synthetic(req["synthetic"], req.get("maxv", 13))
    if "probes" in req:
        out["probes"] = probes()
    print(json.dumps(out))


main()
