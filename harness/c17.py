"""C17 — keyed records choose the same partition as the Java client.
Tie T: Murmur2.v / Partitioner.v are regenerated from aiokafka/partitioner.py, the theorems of
props/C17.v are re-checked.  Plus (i) validation of the translator: the generated Gallina
functions evaluated inside Coq agree with the real Python on sample inputs; (ii) the search
for a concrete failing key: the real murmur2 / partitioner against an independent int32
transcription of the Java algorithm."""
import json

from common import Check, coq_list, coq_opt, coq_Z, parse_coq_value, parse_eval_outputs, run_impl


# ---- independent Java transcription over signed 32-bit ints --------------------------------
def s32(x):
    return ((x + 2**31) % 2**32) - 2**31


def murmur2_java(data: bytes) -> int:
    sb = [b - 256 if b > 127 else b for b in data]
    length = len(sb)
    seed = s32(0x9747B28C)
    m = 0x5BD1E995
    r = 24
    h = s32(seed ^ length)
    length4 = length // 4
    for i in range(length4):
        i4 = i * 4
        k = s32((sb[i4] & 0xFF) + s32((sb[i4 + 1] & 0xFF) << 8) + s32((sb[i4 + 2] & 0xFF) << 16)
                + s32((sb[i4 + 3] & 0xFF) << 24))
        k = s32(k * m)
        k = s32(k ^ ((k % 2**32) >> r))
        k = s32(k * m)
        h = s32(h * m)
        h = s32(h ^ k)
    rem = length % 4
    base = length & ~3
    if rem == 3:
        h = s32(h ^ s32((sb[base + 2] & 0xFF) << 16))
    if rem >= 2:
        h = s32(h ^ s32((sb[base + 1] & 0xFF) << 8))
    if rem >= 1:
        h = s32(h ^ (sb[base] & 0xFF))
        h = s32(h * m)
    h = s32(h ^ ((h % 2**32) >> 13))
    h = s32(h * m)
    h = s32(h ^ ((h % 2**32) >> 15))
    return h


def java_partition(key: bytes, n: int) -> int:
    return (murmur2_java(key) & 0x7FFFFFFF) % n


JAVA_LITERALS = [(b"", 681), (b"a", 524), (b"ab", 434), (b"abc", 107), (b"123456789", 566),
                 (b"\x00 ", 742)]


def gen_keys(ck: Check, n):
    rng = ck.rng
    keys = []
    # all tail lengths 0..3 with every high-bit pattern, after 0..2 full blocks
    for blocks in range(3):
        for tl in range(4):
            for pat in range(1 << tl):
                tail = bytes((0x80 | rng.randrange(128)) if (pat >> j) & 1 else rng.randrange(128)
                             for j in range(tl))
                keys.append(bytes(rng.randrange(256) for _ in range(4 * blocks)) + tail)
    while len(keys) < n:
        ln = rng.choice([0, 1, 2, 3, 4, 5, 7, 8, 9, 15, 16, 17, 31, 33, 64, 100, 255, 1000, 4096])
        ln = rng.randrange(ln + 1) if rng.random() < 0.3 else ln
        mode = rng.random()
        if mode < 0.2:
            keys.append(bytes([rng.choice([0, 0x7F, 0x80, 0xFF])] * ln))
        else:
            keys.append(bytes(rng.randrange(256) for _ in range(ln)))
    return keys


def run(ck: Check):
    ck.trusted += [
        "Coq 8.16.1 kernel (coqc); vm_compute used in Example c17_java_literals and case evaluation",
        "translator/py2gallina.py (validated on this run by evaluating the generated functions in Coq against the real Python)",
        "model/Murmur2Java.v: hand transcription of Kafka's Utils.murmur2 over signed int32, tied to the real Java client only by the six literals pinned in tests/test_partitioner.py",
        "random.choice(seq) modelled as seq[pick mod len(seq)] for an arbitrary integer pick",
        "AIOKafkaProducer._partition / ClusterMetadata.partitions_for_topic (the list handed to the partitioner) are "
        "not in the Coq model: that the list is sorted by partition id is checked end to end under the simulator "
        "with Metadata replies in shuffled partition order",
    ]
    ck.cov["rule"] = ("keys: every byte string of length 0..2 (thorough; quick: lengths 0..1 and a sample of "
                      "length 2), tail lengths 0..3 x every high-bit pattern after 0..2 blocks, random keys "
                      "up to 4 KiB; partition counts 1..1000, random availability subsets; a case is "
                      "non-trivial when the key is non-empty; distinct by (key, partition list, availability)")
    # --- (1) proof obligations on the regenerated model
    ok_t, rep = ck.regenerate(["Murmur2", "Partitioner"])
    ok_p, out = ck.coq_props("C17")
    ck.log(f"translation ok={ok_t}, proofs ok={ok_p}")

    # --- (2) search for a failing input: real code vs independent Java transcription
    for k, v in JAVA_LITERALS:
        assert java_partition(k, 1000) == v, "java transcription self-test"
    nkeys = ck.n(600, 6000)
    keys = gen_keys(ck, nkeys)
    req = {"murmur": [list(k) for k in keys], "exhaustive2": True}
    parts = []
    rng = ck.rng
    for i in range(ck.n(400, 4000)):
        key = rng.choice(keys) if rng.random() < 0.85 else None
        n = rng.choice([1, 2, 3, 7, 10, 100, 999, 1000]) if rng.random() < 0.5 else rng.randrange(1, 1001)
        allp = list(range(n)) if rng.random() < 0.7 else sorted(rng.sample(range(5000), n))
        avail = [p for p in allp if rng.random() < rng.choice([0.0, 0.3, 1.0])]
        rng.shuffle(avail)
        parts.append((None if key is None else list(key), allp, avail, rng.randrange(10**6)))
    req["partition"] = parts
    res = run_impl("c17_impl.py", req)
    bad = 0
    # exhaustive lengths 0..2
    ex = res["exhaustive2"]
    idx = 0
    allk = [b""] + [bytes([a]) for a in range(256)] + [bytes([a, b]) for a in range(256) for b in range(256)]
    for k, got in zip(allk, ex):
        want = murmur2_java(k) % 2**32
        if got != want:
            bad += 1
            if bad <= 3:
                ck.violation(f"murmur2({k!r}) = {got}, Java client computes {want}",
                             {"kind": "murmur2", "key": list(k), "impl": got, "java": want},
                             signature=f"murmur2:{k.hex()}")
    ck.count(n=len(allk) - 2, nontrivial=False)
    ck.count(key=("exh2",), sample={"exhaustive": "all 65793 byte strings of length 0..2"})
    ck.extra["exhaustive_len_0_2"] = len(allk)
    for k, got in zip(keys, res["murmur"]):
        want = murmur2_java(k) % 2**32
        ck.count(key=("m", k), nontrivial=len(k) > 0,
                 sample={"key_hex": k.hex()[:64], "murmur2": got} if len(k) in (5, 9) else None)
        if got != want:
            bad += 1
            if bad <= 5:
                ck.violation(f"murmur2(key of {len(k)} bytes) = {got}, Java client computes {want}",
                             {"kind": "murmur2", "key": list(k), "impl": got, "java": want},
                             signature=f"murmur2:{k.hex()[:40]}")
    for (key, allp, avail, pick), got in zip(parts, res["partition"]):
        ck.count(key=("p", bytes(key) if key is not None else None, len(allp), tuple(avail[:5])),
                 nontrivial=True)
        if key is not None:
            want = allp[java_partition(bytes(key), len(allp))]
            if got != want:
                bad += 1
                if bad <= 8:
                    ck.violation(f"keyed record sent to partition {got}, Java client chooses {want}",
                                 {"kind": "partition", "key": key, "all_partitions": allp,
                                  "available": avail, "impl": got, "java": want},
                                 signature=f"partition:{bytes(key).hex()[:40]}:{len(allp)}")
        else:
            okv = (got in avail) if avail else (got in allp)
            if not okv:
                bad += 1
                if bad <= 8:
                    ck.violation(f"unkeyed record sent to {got}, not an available partition",
                                 {"kind": "unkeyed", "all_partitions": allp, "available": avail,
                                  "pick": pick, "impl": got}, signature="unkeyed-unavailable")
    ck.log(f"search: {len(allk) + len(keys) + len(parts)} evaluations, {bad} disagreement(s) with the Java transcription")

    # --- (2b) end to end through the real producer: Metadata replies in shuffled partition order
    cases = []
    for i in range(ck.n(10, 80)):
        n = rng.choice([2, 3, 5, 8, 13, 32])
        ks = []
        for _ in range(ck.n(25, 60)):
            ks.append(None if rng.random() < 0.2 else list(rng.choice(keys)[:64]))
        nl = rng.choice([0, 0, 1, 2])
        cases.append({"seed": rng.randrange(1 << 30), "brokers": rng.choice([1, 2, 3]), "partitions": n,
                      "keys": ks, "leaderless": rng.sample(range(n), min(nl, n - 1))})
        if i % 3 == 0:
            # producer options that must not matter for the choice: idempotence (a record for a leaderless partition
            # then waits for the election instead of expiring; the driver gives up on it after 0.3 s)
            cases[-1]["idempotent"] = True
            cases[-1]["wait"] = 0.3
            if not cases[-1]["leaderless"] and n > 1:
                cases[-1]["leaderless"] = [rng.randrange(n)]
        if i % 2 == 1:
            # partitions whose leader is alive but whose Metadata entry carries a partition-level error (a follower or a
            # listener is down): they are partitions of the topic like the others
            c0 = cases[-1]
            live = [q for q in range(n) if q not in c0["leaderless"]]
            c0["partition_errors"] = {str(q): rng.choice([9, 9, 72, 5, 3]) for q in rng.sample(live, min(len(live), rng.choice([1, 2])))}
    # ... and with a configured key serializer: the serialized key (as found in the log) is what gets hashed,
    # also when the application's key object is None but its serialized form is not
    objs = [None, None, "", "a", "user-17", 0, 7, 12345, -1, True, ["x", 1], {"k": "v"}, "ключ", "x" * 40]
    for i in range(ck.n(6, 40)):
        n = rng.choice([2, 3, 5, 8, 13, 32])
        cases.append({"seed": rng.randrange(1 << 30), "brokers": rng.choice([1, 2]), "partitions": n, "ser": "json",
                      "keys": [rng.choice(objs) for _ in range(ck.n(25, 60))], "leaderless": []})
    # ... and topics that gain partitions while the producer runs (one producer object, keyed sends before and after
    # the metadata refresh that reports the new count): "modulo the number of partitions" means the current number
    for i in range(ck.n(6, 40)):
        n = rng.choice([1, 2, 3, 4, 5, 8])
        m = n + rng.choice([1, 2, 3, 8])
        nk = ck.n(30, 60)
        cases.append({"seed": rng.randrange(1 << 30), "brokers": rng.choice([1, 2, 3]), "partitions": n,
                      "keys": [None if rng.random() < 0.1 else list(rng.choice(keys)[:64]) for _ in range(nk)],
                      "leaderless": [], "grow": {"after": rng.randrange(3, nk // 2), "to": m}})
    e2e = run_impl("c17_e2e_impl.py", {"cases": cases}, timeout=900, env={"AIOKAFKA_NO_EXTENSIONS": "1"})["out"]
    nb = 0
    for c0, r in zip(cases, e2e):
        wk = r.get("wire_keys") or [None] * len(c0["keys"])
        for idx, (key0, rep, land, wkey) in enumerate(zip(c0["keys"], r["reported"], r["landed"], wk)):
            c = c0
            if c0.get("grow") and idx > c0["grow"]["after"]:
                c = dict(c0, partitions=c0["grow"]["to"])
            key = wkey if c.get("ser") else key0
            if c.get("ser") and wkey is None and land is not None:
                nb += 1
                ck.violation("a record sent with a key serializer has no key in the log", {"kind": "e2e-ser", "key": key0},
                             signature="e2e-serializer-lost-key")
                continue
            ck.count(key=("e2e", c["seed"], None if key is None else bytes(key)), nontrivial=key is not None)
            if key is not None:
                want = java_partition(bytes(key), c["partitions"])
                if want in c["leaderless"]:
                    # the partition has no leader: the record cannot be delivered (not C17's business) - but it must not
                    # turn up in another partition either
                    if land is not None and land != want:
                        nb += 1
                        if nb <= 5:
                            ck.violation(f"keyed record whose partition {want} has no leader landed in partition {land}: the "
                                         f"choice depends on availability",
                                         {"kind": "e2e", "case": {k: v for k, v in c.items() if k != "keys"}, "key": key,
                                          "landed": land, "reported": rep, "java": want},
                                         signature=f"e2e-leaderless:{bytes(key).hex()[:30]}:{c['partitions']}")
                    continue
                if land != want or rep != want:
                    nb += 1
                    if nb <= 5:
                        ck.violation(f"keyed record landed in partition {land} (reported {rep}); the Java client sends it to {want}",
                                     {"kind": "e2e", "case": {k: v for k, v in c.items() if k != "keys"}, "key": key,
                                      "landed": land, "reported": rep, "java": want},
                                     signature=f"e2e:{bytes(key).hex()[:30]}:{c['partitions']}")
            else:
                if isinstance(rep, int) and rep in c["leaderless"] and len(c["leaderless"]) < c["partitions"]:
                    nb += 1
                    if nb <= 5:
                        ck.violation(f"unkeyed record sent to partition {rep}, which had no leader while others were available",
                                     {"kind": "e2e-unkeyed", "case": {k: v for k, v in c.items() if k != "keys"}, "reported": rep},
                                     signature="e2e-unkeyed-unavailable")
    ck.extra["e2e_cases"] = len(cases)
    ck.log(f"end-to-end: {sum(len(c['keys']) for c in cases)} records through the real producer, {nb} misplaced")

    # --- (3) translator validation: generated Gallina vs real Python on the same inputs
    if ok_t:
        sample_keys = [k for k in keys if len(k) <= 40][: ck.n(150, 600)]
        impl_vals = {k: v for k, v in zip(keys, res["murmur"])}
        body = "Definition ks : list (list Z) := " + coq_list(sample_keys, lambda k: coq_list(list(k))) + ".\n"
        body += "Eval vm_compute in (map (fun k => match Murmur2.py k with Ok v => v | Exn _ => -1 end) ks).\n"
        psel = [p for p in parts if (p[0] is None or len(p[0]) <= 40) and len(p[1]) <= 40][: ck.n(60, 300)]
        pres = {id(p): r for p, r in zip(parts, res["partition"])}
        body += ("Definition ps : list (option (list Z) * list Z * list Z * Z) := "
                 + coq_list(psel, lambda p: f"({coq_opt(p[0], coq_list)}, {coq_list(p[1])}, {coq_list(p[2])}, {coq_Z(p[3])})")
                 + ".\n")
        body += ("Eval vm_compute in (map (fun '(k, a, v, pk) => match Partitioner.py k a v pk with "
                 "Ok v => v | Exn _ => -1 end) ps).\n")
        okc, outc = ck.coq_eval("c17_cases", ["Imp", "Murmur2", "Partitioner"], body)
        agree = False
        detail = ""
        if okc:
            vals = [parse_coq_value(v) for v in parse_eval_outputs(outc)]
            want1 = [impl_vals[k] for k in sample_keys]
            want2 = [pres[id(p)] if not isinstance(pres[id(p)], str) else -1 for p in psel]
            agree = len(vals) == 2 and vals[0] == want1 and vals[1] == want2
            if not agree:
                detail = "generated Gallina and real Python disagree on the sample"
                if len(vals) == 2:
                    for k, a, b in zip(sample_keys, vals[0], want1):
                        if a != b:
                            detail += f"; key {k.hex()}: model {a} impl {b}"
                            break
        else:
            detail = outc[-500:]
        ck.obligation("correspondence:translated-functions-vs-python", agree, detail)
        ck.extra["translator_validation_cases"] = len(sample_keys) + len(psel)
        ck.count(n=len(sample_keys) + len(psel), nontrivial=False)
