"""Scenario generation and sharded execution for group-consumer simulations (C04/C05/C06/C19).

Scenario: {id, seed, brokers, topics {name: n}, preload {topic: {part: n_records}},
 consumers [{name, group, topics|pattern, assignors [...], auto_commit, ..., program [ops]}],
 cluster_events [{at, op, ...}], faults {apis [...], plan {ordinal: fault}}, api_ranges}
ops: ["start"], ["sleep", d], ["consume", duration, poll_timeout, max_records, think], ["commit"],
     ["subscribe", topics], ["stop"], ["kill"]."""
from __future__ import annotations

import concurrent.futures as cf
import random

from common import NPROC, run_impl

GROUP_APIS = ["JoinGroup", "SyncGroup", "Heartbeat", "OffsetCommit", "FindCoordinator", "OffsetFetch", "LeaveGroup"]
COORD_ERRORS = [14, 15, 16, 22, 25, 27]   # LOAD_IN_PROGRESS, NOT_AVAILABLE, NOT_COORDINATOR, ILLEGAL_GENERATION, UNKNOWN_MEMBER, REBALANCE_IN_PROGRESS


def gen_scenario(rng: random.Random, sid, n_members=None, n_faults=None, quiet=12.0, **over):
    brokers = rng.choice([1, 2, 3])
    ntopics = rng.choice([1, 1, 2])
    topics = {f"t{i}": rng.choice([1, 2, 3, 4]) for i in range(ntopics)}
    preload = {t: {str(p): rng.choice([0, 3, 6, 10]) for p in range(n)} for t, n in topics.items()}
    nm = n_members or rng.choice([1, 2, 2, 3, 4])
    assignor_sets = [["range"], ["roundrobin"], ["sticky"], ["range", "roundrobin"], ["roundrobin", "range"],
                     ["sticky", "range", "roundrobin"]]
    asg = rng.choice(assignor_sets)
    consumers = []
    same_subs = rng.random() < 0.7
    for i in range(nm):
        subs = list(topics) if same_subs else rng.sample(list(topics), rng.randrange(1, len(topics) + 1))
        start_delay = rng.choice([0, 0, 0.05, 0.5, 1.5, 3.0])
        life = rng.choice([2.0, 4.0, 6.0])
        fate = rng.choice(["stay", "stay", "stop", "kill"])
        prog = [["sleep", start_delay], ["start"], ["consume", life, rng.choice([0.1, 0.1, 1.0]), rng.choice([1, 2, 5, None, None]), rng.choice([0, 0, 0.01])]]
        if fate == "stop":
            prog.append(["stop"])
        elif fate == "kill":
            prog.append(["kill"])
        else:
            prog.append(["consume", quiet + 8.0 - life, 0.1, rng.choice([2, None]), 0])
            prog.append(["stop"])
        consumers.append({"name": f"c{i}", "group": "g", "topics": sorted(subs), "assignors": asg,
                          "auto_commit": rng.random() < 0.8, "auto_commit_interval_ms": rng.choice([100, 300, 1000]),
                          "cb_delay": rng.choice([0, 0.01, 0.2, 0.5]), "program": prog,
                          # the listener's shape: coroutine functions, plain functions, a plain callable
                          # returning a coroutine (all documented)
                          "listener_kind": rng.choice(["async", "async", "async", "returns_coroutine", "sync"])})
    events = []
    for _ in range(rng.choice([0, 1, 2, 3])):
        t = rng.choice(list(topics))
        events.append({"at": rng.choice([0.5, 1.0, 2.5, 4.0]), "op": "append", "topic": t,
                       "p": rng.randrange(topics[t]), "n": rng.choice([1, 2, 4])})
    if rng.random() < 0.6:
        # records arriving while members are inside a rebalance (revoke window / join barrier)
        for c in consumers:
            s0 = c["program"][0][1]
            for dt in rng.sample([0.02, 0.05, 0.1, 0.15, 0.25, 0.4], 3):
                t = rng.choice(list(topics))
                events.append({"at": s0 + dt, "op": "append", "topic": t, "p": rng.randrange(topics[t]), "n": 1})
    if brokers > 1 and rng.random() < 0.3:
        events.append({"at": rng.choice([1.0, 2.0, 3.5]), "op": "coord_move", "to": rng.randrange(brokers),
                       "keep_state": rng.random() < 0.5})
    nf = rng.choice([0, 0, 1, 2, 4]) if n_faults is None else n_faults
    plan = {}
    for _ in range(nf):
        kind = rng.choice(["drop_before", "drop_after", "no_reply", "error", "error", "delay"])
        f = {"kind": kind}
        if kind == "error":
            f["code"] = rng.choice(COORD_ERRORS)
        if kind == "delay":
            f["delay"] = rng.choice([0.1, 0.8])
        plan[str(rng.randrange(1, 40))] = f
    sc = {"id": sid, "seed": rng.randrange(1 << 30), "brokers": brokers, "topics": topics, "preload": preload,
          "consumers": consumers, "cluster_events": events,
          "faults": {"apis": GROUP_APIS, "plan": plan}, "coordinator": rng.randrange(brokers),
          "max_vtime": 600.0}
    if rng.random() < 0.3:
        sc["api_ranges"] = {"11": [0, rng.choice([0, 1, 2, 3, 4, 5])]}
    sc.update(over)
    return sc


def old_broker(sc, rng, profile=None):
    """the same scenario against an older broker release: every API capped at that release's highest version"""
    from simkit import profiles
    name = profile or rng.choice(list(profiles.BROKER_PROFILES))
    sc["api_ranges"] = profiles.api_ranges(name)
    sc["family"] = "old-broker:" + name
    return sc


def run_scenarios(scs, timeout=900, shards=None):
    if not scs:
        return []
    shards = shards or min(NPROC, max(1, len(scs) // 3))
    chunks = [scs[i::shards] for i in range(shards)]
    res = {}
    with cf.ThreadPoolExecutor(max_workers=shards) as ex:
        futs = [ex.submit(run_impl, "consumer_sim.py", {"scenarios": ch}, timeout,
                          {"AIOKAFKA_NO_EXTENSIONS": "1"}) for ch in chunks if ch]
        for fu in futs:
            for r in fu.result()["results"]:
                res[r["id"]] = r
    return [res.get(sc["id"], {"id": sc["id"], "ok": False, "error": "no result"}) for sc in scs]
