"""C06 — group membership converges and is not disturbed by the member itself."""
import itertools
import random

import conssim
from c06_converge import check_converge
from c05 import member_clients
from common import Check, parse_coq_value, parse_eval_outputs, run_impl

NAMES = {1: "range", 2: "roundrobin", 3: "sticky"}
REPLY_KINDS = [("JoinOk", 3, 7, True), ("JoinOk", 4, 9, False), ("MemberIdRequired", 7), ("LoadInProgress",),
               ("UnknownMember",), ("CoordinatorGone",), ("FatalJoin",), ("UnexpectedJoin",), ("ConnErr",),
               ("SubChanged",), ("SyncOk",), ("SyncErr",)]


def coq_reply(r):
    k = r[0]
    if k == "JoinOk":
        return f"JoinOk {r[1]} {r[2]} {'true' if r[3] else 'false'}"
    if k == "MemberIdRequired":
        return f"JoinErr (MemberIdRequired {r[1]})"
    if k in ("LoadInProgress", "UnknownMember", "CoordinatorGone", "FatalJoin", "UnexpectedJoin"):
        return f"JoinErr {k}"
    return k


def check_scripts(ck: Check):
    cases = []
    asgs = [list(p) for n in (1, 2, 3) for p in itertools.permutations([1, 2, 3], n)]
    maxlen = ck.n(3, 4)
    JOIN_KINDS = [k for k in REPLY_KINDS if k[0] not in ("SyncOk", "SyncErr")]
    SYNC_KINDS = [("SyncOk",), ("SyncErr",), ("ConnErr",)]
    scripts = [()]
    # well-typed scripts: replies to JoinGroup requests, and after a JoinOk one reply to the SyncGroup
    for n in range(1, maxlen + 1):
        for pre in itertools.product([k for k in JOIN_KINDS if k[0] == "MemberIdRequired"], repeat=n - 1):
            for last in JOIN_KINDS:
                if last[0] == "JoinOk":
                    scripts.append(tuple(pre) + (last,))
                    for sy in SYNC_KINDS:
                        scripts.append(tuple(pre) + (last, sy))
                else:
                    scripts.append(tuple(pre) + (last,))
    rng = ck.rng
    for asg in asgs:
        for mid in (0, 5):
            for s in (scripts if ck.thorough else rng.sample(scripts, min(len(scripts), 60))):
                cases.append({"asg": asg, "mid": mid, "replies": [list(x) for x in s], "jv": rng.randrange(0, 6)})
    # the corpus: two assignors, successful join (the defect fixed by the C06 fix: commit fe03318)
    cases.insert(0, {"asg": [1, 2], "mid": 0, "replies": [["JoinOk", 3, 7, True], ["SyncOk"]], "jv": 5})
    impl = run_impl("c06_script_impl.py", {"cases": cases}, timeout=600)["out"]
    per = 400
    bodies = []
    for i in range(0, len(cases), per):
        lines = ["Local Open Scope nat_scope."]
        for c in cases[i:i + per]:
            lines.append(f"Eval vm_compute in (join_script [{'; '.join(map(str, c['asg']))}] {c['mid']} "
                         f"[{'; '.join(coq_reply(r) for r in c['replies'])}]).")
        bodies.append("\n".join(lines) + "\n")
    res = ck.coq_eval_sharded("c06_scripts", ["C06_JoinScript"], bodies)
    mism = 0
    nviol = 0
    for ci, (okc, out) in enumerate(res):
        chunk = cases[ci * per:(ci + 1) * per]
        vals = [parse_coq_value(v) for v in parse_eval_outputs(out)] if okc else []
        if len(vals) != len(chunk):
            ck.obligation("correspondence:join-script-cases-evaluated", False, out[-300:])
            continue
        for c, v, im in zip(chunk, vals, impl[ci * per:(ci + 1) * per]):
            reqs, outcome = v
            model = []
            for q in reqs:
                if q[0] == "RJoin":
                    model.append(["join", [NAMES[x] for x in q[1]], "" if q[2] == 0 else f"m{q[2]}"])
                else:
                    model.append(["sync", q[1], f"m{q[2]}", 1 if q[3] else 0])
            real = im["sent"]
            ck.count(key=("script", str(c)), nontrivial=len(c["replies"]) >= 1 and len(c["asg"]) >= 2,
                     sample={"case": c, "requests": real, "outcome": im["outcome"]}
                     if len(c["asg"]) == 2 and len(c["replies"]) == 3 and len(real) == 3 else None)
            # monitor: the request-content clauses on the real requests
            want = [NAMES[x] for x in c["asg"]]
            prev_ok = None
            for idx, q in enumerate(real):
                if q[0] == "join" and q[1] != want:
                    nviol += 1
                    if nviol <= 3:
                        ck.violation(f"a JoinGroup advertised {q[1]} instead of all configured strategies {want}",
                                     {"case": c, "requests": real}, signature=f"join-advertises:{c['asg']}")
            ri = 0
            for idx, q in enumerate(real):
                if q[0] == "join" and ri < len(c["replies"]):
                    rep = c["replies"][ri]
                    ri += 1
                    if rep[0] == "JoinOk":
                        nxt = real[idx + 1] if idx + 1 < len(real) else None
                        if nxt is not None and not (nxt[0] == "sync" and nxt[1] == rep[1] and nxt[2] == f"m{rep[2]}"):
                            nviol += 1
                            if nviol <= 3:
                                ck.violation("a successful JoinGroup reply was not followed by this member's SyncGroup "
                                             "for that generation and identity",
                                             {"case": c, "requests": real}, signature=f"join-then-sync:{c['asg']}")
                        break
                elif q[0] == "sync":
                    ri += 1
            if model != real or outcome != im["outcome"]:
                mism += 1
                if mism <= 3:
                    ck.obligation(f"correspondence:join-script:{mism}", False,
                                  f"case {c}: model {model} {outcome} vs real {real} {im['outcome']}")
    ck.obligation("correspondence:join_script-model-vs-real-perform_group_join", mism == 0, f"{mism} differ of {len(cases)}")
    ck.extra["script_cases"] = len(cases)


DISPATCH = {   # api -> (coq function, import, kafka code set of model/C06_Codes.v, required recovery per code)
    "heartbeat": ("heartbeatDispatch", "HeartbeatDispatch", [15, 16, 22, 25, 27]),
    "join": ("joinDispatch", "JoinDispatch", [14, 15, 16, 25]),
    "sync": ("syncDispatch", "SyncDispatch", [15, 16, 22, 25, 27]),
    "commit": ("commitDispatch", "CommitDispatch", [14, 15, 16, 22, 25, 27]),
}
DISPATCH_UNITS = ["HeartbeatDispatch", "JoinRetryDispatch", "JoinDispatch", "SyncDispatch", "CommitDispatch"]
RECOVERY = {"ACoordinatorDead", "ARequestRejoin", "AResetGeneration", "ABackoff"}


def check_dispatch(ck: Check):
    """(1) the translated dispatch chains evaluated inside Coq equal what the real handlers do, for every
    error code -1..100 (validation of the translator on every run); (2) monitor on the real handlers: no
    code a Kafka coordinator can answer ends the member, each triggers a recovery action."""
    codes = list(range(-1, 101))
    cases = [{"api": api, "code": c} for api in DISPATCH for c in codes]
    impl = run_impl("c06_dispatch_impl.py", {"cases": cases}, timeout=300)["out"]
    body = []
    for api, (fn, _imp, _k) in DISPATCH.items():
        body.append(f"Eval vm_compute in (map (fun c => (obs ({fn} c), ending ({fn} c))) "
                    f"[{'; '.join(f'({c})' if c < 0 else str(c) for c in codes)}]).")
    body.append("Eval vm_compute in (map (fun c => has ARetryJoin (joinRetryDispatch c)) "
                f"[{'; '.join(f'({c})' if c < 0 else str(c) for c in codes)}]).")
    okc, out = ck.coq_eval("c06_dispatch", ["DispatchActs", "C06_Codes"] + DISPATCH_UNITS, "\n".join(body) + "\n")
    vals = [parse_coq_value(v) for v in parse_eval_outputs(out)] if okc else []
    if len(vals) != len(DISPATCH) + 1:
        ck.obligation("correspondence:dispatch-evaluated-in-coq", False, out[-400:])
        return
    mism = 0
    by = {(r["api"], r["code"]): r for r in impl}
    for (api, (fn, _imp, kafka)), col in zip(DISPATCH.items(), vals[:-1]):
        for c, (mobs, mend) in zip(codes, col):
            r = by[(api, c)]
            def flat(x):
                if isinstance(x, str):
                    return x
                if isinstance(x, (list, tuple)):
                    if len(x) == 2 and x[0] == "ctor":
                        return flat(x[1])
                    return " ".join(flat(y) for y in x)
                return str(x)
            mobs = [flat(a) for a in mobs]
            mend_s = flat(mend)
            if r["raise"]:
                rend = r["raise"].split(":")[0]
            elif api == "join" and r["ret"] == "Retried":
                rend = None          # MEMBER_ID_REQUIRED: the loop sends the next JoinGroup (checked below)
            else:
                rend = {"RTrue": "AReturn RTrue", "RFalse": "AReturn RFalse", "RNone": "AReturn RNone",
                        "RValue": "AReturn RValue"}.get(r["ret"])
            model_end = mend_s
            if api == "commit" and model_end == "AFallThrough":
                model_end = "AReturn RNone"
            if c == 0 and api in ("join", "sync", "heartbeat"):
                continue             # the success path is not part of the dispatch (covered by the join scripts)
            same = mobs == r["acts"] and (rend is None or model_end == rend or
                                          (model_end == "AFallThrough" and rend == "AReturn RNone"))
            ck.count(key=("dispatch", api, c), nontrivial=c in kafka,
                     sample={"api": api, "code": c, "real": r, "model": [mobs, mend_s]} if c in kafka and c % 5 == 0 else None)
            if not same:
                mism += 1
                if mism <= 3:
                    ck.obligation(f"correspondence:dispatch:{api}:{c}", False,
                                  f"model {mobs} {mend_s} vs real {r['acts']} {r['ret']} {r['raise']}")
            # monitor on the real handler
            if c in kafka:
                if r["raise"] and api != "commit":
                    ck.violation(f"{api} reply with error code {c} (a code a Kafka coordinator sends for this request) "
                                 f"ends the member: the handler raises {r['raise']}",
                                 {"api": api, "code": c, "observed": r}, signature=f"dispatch-fatal:{api}:{c}")
                elif not (set(r["acts"]) & RECOVERY) and not (api == "commit" and c == 14):
                    ck.violation(f"{api} reply with error code {c}: the handler performs no recovery action "
                                 f"(observed {r['acts']})", {"api": api, "code": c, "observed": r},
                                 signature=f"dispatch-no-recovery:{api}:{c}")
    retry_col = vals[-1]
    for c, mr in zip(codes, retry_col):
        r = by[("join", c)]
        real_retry = r["ret"] == "Retried" and c != 0
        if bool(mr) != real_retry:
            mism += 1
            ck.obligation(f"correspondence:dispatch:joinretry:{c}", False, f"model retry={mr} real={r}")
    ck.obligation("correspondence:dispatch-chains-model-vs-real-handlers", mism == 0,
                  f"{mism} differ of {len(cases)}")
    ck.extra["dispatch_cases"] = len(cases)


SIG_HB_FATAL = ("group_coordinator.py:__coordination_routine: one Heartbeat reply with a non-retriable error ends the "
                "heartbeat task for good (auto-commit off)")


def monitor_convergence(ck, sc, r, quiet):
    bad = 0

    def viol(what, extra=None):
        nonlocal bad
        bad += 1
        rp = {"scenario": sc, "what": what}
        rp.update(extra or {})
        sig = f"sim:{what[:70]}"
        if sc.get("family") == "heartbeat-fatal-once" and "heartbeating" in what:
            sig = SIG_HB_FATAL
        ck.violation(f"{what} (scenario {sc['id']})", rp, signature=sig)
    g = r["groups"].get("g")
    if not g:
        return 0
    mc = member_clients(r["trace"])
    end = r["vtime"]
    # live members at the end of the quiet period = consumers whose program ends with a long stay
    live = [c["name"] for c in sc["consumers"] if c.get("_stays")]
    if not live:
        return 0
    t_stop_first = min((e["t"] for e in r["trace"] if e["ev"] == "stop_call" and e["c"] in live), default=end)
    # state just before the first of the final stops: reconstruct from history
    jcs = [e for e in r["trace"] if e["ev"] == "join_complete" and e["t"] < t_stop_first]
    if not jcs:
        viol("no generation was ever formed although members stayed through the quiet period")
        return bad
    last = jcs[-1]
    members = sorted(mc.get(m) for m in last["members"])
    if members != sorted(live):
        viol("after the quiet period the latest generation does not consist of exactly the live members",
             {"generation": last["generation"], "members": members, "live": sorted(live)})
    # "once the environment is quiet ... no further rebalance occurs": the environment's last action Q is
    # the latest of: an injected fault, a start/stop/kill/subscribe call, a cluster event, and the session
    # expiry of a member id no live client holds any more (a killed client's id, or an id orphaned by a lost
    # reply / generation reset - the delayed consequence of an earlier fault).  A rebalance that completes
    # more than SETTLE seconds after Q is the members' own doing.
    SETTLE = 5.0
    killed = {e["c"]: e["t"] for e in r["trace"] if e["ev"] == "kill"}
    cur = {}
    q_t = 0.0
    for e in r["trace"]:
        if e["t"] >= t_stop_first:
            break
        ev = e["ev"]
        if ev == "member_id_assigned":
            cur[e["client"]] = e["member"]
        elif ev == "request" and e.get("fault"):
            q_t = max(q_t, e["t"] + (e["fault"].get("delay") or 0.0))
        elif ev in ("start_call", "start_ret", "stop_call", "kill", "subscribe", "cluster_event", "coordinator_move",
                    "leave_request"):
            q_t = max(q_t, e["t"])
        elif ev in ("session_expired", "member_dropped_at_rebalance_timeout"):
            cl = mc.get(e["member"])
            if cl is None or cl in killed or cur.get(cl) != e["member"] or cl not in live:
                q_t = max(q_t, e["t"])
    if t_stop_first - q_t >= SETTLE + 1.0:
        if last["t"] > q_t + SETTLE:
            viol("a rebalance still occurred after the environment had been quiet for %.0f s" % SETTLE,
                 {"last_join_complete": last["t"], "environment_quiet_since": q_t, "quiet_end": t_stop_first})
    else:
        ck.extra["no_rebalance_clause_inconclusive"] = ck.extra.get("no_rebalance_clause_inconclusive", 0) + 1
    h = [x for x in g["history"] if x["generation"] == last["generation"]]
    if h and h[0]["assignments"] is not None:
        owned = {tuple(tp) for a in h[0]["assignments"].values() for tp in a}
        subs = set()
        for c in sc["consumers"]:
            if c["name"] in live:
                subs |= set(c["topics"])
        allp = {(t, p) for t in subs for p in range(len(r["logs"].get(t, {})))}
        if owned != allp:
            viol("the members' assignments do not cover every partition of every subscribed topic",
                 {"missing": sorted(allp - owned), "extra": sorted(owned - allp)})
    else:
        viol("the latest generation never completed SyncGroup")
    hb = {}
    for e in r["trace"]:
        if e["ev"] == "heartbeat" and t_stop_first - 3.0 <= e["t"] < t_stop_first and e.get("error") == 0:
            hb[mc.get(e["member"])] = hb.get(mc.get(e["member"]), 0) + 1
    for c in live:
        if hb.get(c, 0) < 2:
            viol("a live member stopped heartbeating", {"member": c, "heartbeats_last_3s": hb.get(c, 0)})
    return bad


def run(ck: Check):
    ck.trusted += [
        "Coq 8.16.1 kernel; vm_compute for script evaluation",
        "model/C06_JoinScript.v hand-written; tied to perform_group_join by exhaustive differential testing over "
        "reply scripts (fake coordinator object, real request builders)",
        "translator/dispatch2gallina.py for the error-dispatch chains of _do_heartbeat, perform_group_join, "
        "_send_sync_group_request, _do_commit_offsets (validated per run against the real handlers for codes -1..100); "
        "model/C06_Codes.v: the per-API error codes of a Kafka coordinator, written by hand",
        "convergence is decided by a monitor on simulated groups (virtual time), not by a theorem: partial",
        "simulated group coordinator as oracle",
    ]
    ck.cov["rule"] = ("(a) perform_group_join: every assignor list of length 1-3 (orders included) x known/unknown member "
                      "id x reply scripts over 12 reply kinds (all of length <= 2, sampled/all of length 3-4) x JoinGroup "
                      "v0-v5; (b) simulated groups of 1-4 members with fault sequences followed by a quiet period; one "
                      "evaluation = one script or one run; non-trivial = >= 2 assignors and >= 1 reply, or >= 2 generations")
    ck.regenerate(DISPATCH_UNITS)
    ck.coq_props("C06")
    check_scripts(ck)
    check_dispatch(ck)
    rng = random.Random(ck.seed * 271 + 6)
    n = ck.n(40, 600)
    quiet = 12.0
    scs = []
    for i in range(n):
        sc = conssim.gen_scenario(rng, i, quiet=quiet)
        for c in sc["consumers"]:
            c["_stays"] = len(c["program"]) == 5    # start; consume; consume(quiet); stop  (+ initial sleep)
        # faults cease before the quiet period: only early ordinals
        sc["faults"]["plan"] = {k: v for k, v in sc["faults"]["plan"].items() if int(k) <= 25}
        sc["cluster_events"] = [e for e in sc["cluster_events"] if e["at"] <= 4.0]
        scs.append(sc)
    # fault enumeration: one fault at every group-request ordinal of a two-member base run in which the
    # second member's arrival forces the first one to re-join (JoinGroup / SyncGroup / Heartbeat / ... of a
    # member that already holds an assignment)
    def base(sid, plan, auto_commit=True):
        mk = lambda name, delay: {"name": name, "group": "g", "topics": ["t0"], "assignors": ["range"],  # noqa: E731
                                  "auto_commit": auto_commit, "auto_commit_interval_ms": 300, "cb_delay": 0.01, "_stays": True,
                                  "program": [["sleep", delay], ["start"], ["consume", 4.0, 0.1, None, 0],
                                              ["consume", quiet + 4.0, 0.1, None, 0], ["stop"]]}
        return {"id": sid, "seed": 7, "brokers": 1, "topics": {"t0": 4}, "preload": {"t0": {"0": 3, "1": 3, "2": 0, "3": 0}},
                "consumers": [mk("c0", 0.0), mk("c1", 1.5)], "cluster_events": [],
                "faults": {"apis": conssim.GROUP_APIS, "plan": plan}, "coordinator": 0, "max_vtime": 600.0}
    b0 = conssim.run_scenarios([base("base", {})], shards=1)[0]
    nreq = 0
    if b0.get("ok"):
        t0 = min(e["t"] for e in b0["trace"])
        nreq = sum(1 for e in b0["trace"] if e["ev"] == "request" and e["api"] in conssim.GROUP_APIS and e["t"] - t0 < 4.0)
    kinds = ["drop_before", "no_reply", "error:16", "error:25"] if not ck.thorough else \
        ["drop_before", "no_reply", "drop_after", "error:27", "error:16", "error:15", "error:25", "error:22"]
    fe = 0
    for k in range(1, min(nreq, ck.n(45, 90)) + 1):
        for kind in kinds:
            f = {"kind": "error", "code": int(kind.split(":")[1])} if kind.startswith("error") else {"kind": kind}
            # without auto-commit nothing but the heartbeat tells a member that it fell out of the group
            for ac in ((True, False) if kind.startswith("error") else (True,)):
                scs.append(base(f"fe-{k}-{kind}-{int(ac)}", {str(k): f}, auto_commit=ac))
                fe += 1
    ck.extra["fault_enumeration_runs"] = fe
    # a subscribed topic grows while a rebalance is running (at 50 instants from just before the second member's join to the end of the rebalance,
    # slow callbacks widen the windows): afterwards the group must rebalance once more and own the new partition
    for j, dt in enumerate([x * 0.03 for x in range(-3, 47)]):
        sc = base(f"grow-{j}", {}, auto_commit=bool(j % 2))
        for c in sc["consumers"]:
            c["cb_delay"] = [0.01, 0.2, 0.4][j % 3]
            c["metadata_max_age_ms"] = 100
        sc["cluster_events"] = [{"at": round(1.5 + dt, 3), "op": "add_partitions", "topic": "t0", "n": 1}]
        scs.append(sc)
    # ... and while the leader's SyncGroup is in flight (slow SyncGroup round trip, short metadata age): the leader has
    # computed the assignment from the old partition count and learns of the growth before the reply arrives
    for j, dt in enumerate([x * 0.04 for x in range(-2, 28)]):
        sc = base(f"grow-slow-sync-{j}", {}, auto_commit=bool(j % 2))
        for c in sc["consumers"]:
            c["cb_delay"] = 0.01
            c["metadata_max_age_ms"] = 100
        sc["api_latency"] = {"SyncGroup": [0.4, 0.25][j % 2]}
        sc["cluster_events"] = [{"at": round(1.5 + dt, 3), "op": "add_partitions", "topic": "t0", "n": 2}]
        scs.append(sc)
    # static membership (group_instance_id, JoinGroup v5): every subset of three members is static, each assignor;
    # in half of the runs a static member is killed and a new process with the same group.instance.id takes over
    nstatic = 0
    for mask in range(1, 8):
        for asg in (["roundrobin"], ["range"], ["sticky"])[:ck.n(2, 3)]:
            for restart in (False, True):
                cons = []
                for i in range(3):
                    c = {"name": f"c{i}", "group": "g", "topics": ["t0"], "assignors": asg, "auto_commit": True,
                         "auto_commit_interval_ms": 300, "cb_delay": 0.01, "_stays": True,
                         "program": [["sleep", [0.0, 0.3, 1.5][i]], ["start"], ["consume", 4.0, 0.1, None, 0],
                                     ["consume", quiet + 4.0, 0.1, None, 0], ["stop"]]}
                    if mask >> i & 1:
                        c["group_instance_id"] = f"inst-{'ABC'[i]}"
                    cons.append(c)
                if restart:
                    victim = [i for i in range(3) if mask >> i & 1][0]
                    cons[victim]["program"] = [["sleep", [0.0, 0.3, 1.5][victim]], ["start"], ["consume", 2.5, 0.1, None, 0],
                                               ["kill"]]
                    cons[victim]["_stays"] = False
                    cons.append(dict(cons[victim], name="c9", _stays=True,
                                     program=[["sleep", 3.2], ["start"], ["consume", 3.0, 0.1, None, 0],
                                              ["consume", quiet + 4.0, 0.1, None, 0], ["stop"]]))
                scs.append({"id": f"static-{mask}-{asg[0]}-{int(restart)}", "seed": 11 + mask, "brokers": 1,
                            "topics": {"t0": 6}, "preload": {"t0": {str(q): 2 for q in range(6)}}, "consumers": cons,
                            "cluster_events": [], "faults": {"apis": conssim.GROUP_APIS, "plan": {}}, "coordinator": 0,
                            "max_vtime": 600.0, "family": "static-membership"})
                nstatic += 1
    ck.extra["static_membership_runs"] = nstatic
    # the JoinGroup that carries the member id just handed out with MEMBER_ID_REQUIRED fails, and the coordinator
    # fails over at that moment (pending member ids are not replicated): the next JoinGroup is answered
    # UNKNOWN_MEMBER_ID and the member has to start over with an empty id
    j = 0
    for kind, code in (("error", 16), ("error", 15), ("drop_before", 0), ("no_reply", 0)):
        for keep in (False, True):
            for who in ("c0", "c1"):
                sc = base(f"pendingid-{j}", {})
                sc["brokers"] = 2
                sc["api_faults"] = [{"client": who, "api": "JoinGroup", "nth": 2, "kind": kind, "code": code,
                                     "event": {"op": "coord_move", "to": 1, "keep_state": keep}}]
                sc["family"] = "pending-member-id-lost"
                scs.append(sc)
                j += 1
    # ONE Heartbeat reply carries a non-retriable error (GROUP_AUTHORIZATION_FAILED: the ACL flapped), then the
    # environment is quiet: with the auto-commit timer running the member finds its way back, without it see K5
    for j, (nth, ac) in enumerate([(2, True), (3, True), (2, False), (4, False)]):
        sc = base(f"hbfatal-{j}", {}, auto_commit=ac)
        sc["api_faults"] = [{"client": "c0", "api": "Heartbeat", "nth": nth, "kind": "error", "code": 30}]
        sc["family"] = "heartbeat-fatal-once"
        scs.append(sc)
    # pattern subscription: a topic matching the members' pattern is created while the group is stable / rebalancing;
    # after the next metadata refresh the group must rebalance once and own the new topic's partitions too
    for j, at in enumerate([0.6, 1.0, 1.45, 1.55, 1.7, 2.0, 2.6, 3.2]):
        sc = base(f"pattern-{j}", {}, auto_commit=bool(j % 2))
        for c in sc["consumers"]:
            c["pattern"] = "^t[01]$"
            c["topics"] = ["t0", "t1"]          # what the pattern matches once t1 exists
            c["metadata_max_age_ms"] = 300
            c["assignors"] = [["range"], ["roundrobin"], ["sticky"]][j % 3]
        sc["cluster_events"] = [{"at": at, "op": "create_topic", "topic": "t1", "n": 3}]
        sc["family"] = "pattern-new-topic"
        scs.append(sc)
    # older broker releases: random scenarios and the two-member base run under every profile
    from simkit import profiles
    rng_old = random.Random(ck.seed * 7121 + 606)
    for i in range(ck.n(14, 150)):
        sc = conssim.old_broker(conssim.gen_scenario(rng_old, 700000 + i, quiet=quiet), rng_old)
        for c in sc["consumers"]:
            c["_stays"] = len(c["program"]) == 5
        sc["faults"]["plan"] = {k: v for k, v in sc["faults"]["plan"].items() if int(k) <= 25}
        sc["cluster_events"] = [e for e in sc["cluster_events"] if e["at"] <= 4.0]
        scs.append(sc)
    for name in profiles.BROKER_PROFILES:
        scs.append(conssim.old_broker(base(f"old-{name}", {}), rng_old, profile=name))
    results = conssim.run_scenarios(scs, timeout=ck.n(900, 3000))
    nbad = 0
    hist = {"failed_runs": 0, "with_live_members": 0}
    for sc, r in zip(scs, results):
        if not r.get("ok"):
            hist["failed_runs"] += 1
            ck.obligation(f"correspondence:simulation-ran:{sc['id']}", False, (r.get("error", "") + r.get("tb", ""))[-400:])
            if "SimDeadlock" in r.get("error", "") and any(c.get("_stays") for c in sc["consumers"]):
                # the programs (consume ... stop) did not finish in 600 s of virtual time although the environment
                # went quiet after a few seconds: a live member is stuck (e.g. getmany() blocked behind a
                # rebalance that never completes) - the group does not converge.  The scenario is the replay.
                stuck = [x for x in r.get("stacks", []) if "actor" in x or "getmany" in x or "getone" in x]
                ck.violation(f"a live member never finishes its program after the environment went quiet: the run "
                             f"exceeded the virtual time limit with the application blocked at {stuck[:2]} "
                             f"(scenario {sc['id']})",
                             {"scenario": sc, "error": r.get("error"), "stacks": r.get("stacks", [])[:12]},
                             signature="sim:a live member is blocked forever after the environment went quiet")
            continue
        hist["with_live_members"] += any(c.get("_stays") for c in sc["consumers"])
        nbad += monitor_convergence(ck, sc, r, quiet)
        ngen = len(r["groups"].get("g", {}).get("history", []))
        ck.count(key=("run", sc["id"], sc["seed"]), nontrivial=ngen >= 2,
                 sample={"scenario": sc["id"], "generations": ngen, "members": len(sc["consumers"])} if ngen >= 4 else None)
    ck.extra["input_distribution"] = hist
    ck.log(f"simulated {len(scs)} scenarios; convergence monitor violations {nbad}; {hist}")
    check_converge(ck)
