"""C18 — SCRAM login proves the password and authenticates the server.

(1) proofs: props/C18.v over model/C18_Scram.v (abstract H / HMAC / Hi / base64).
(2) correspondence: the real aiokafka.conn.ScramAuthenticator, driven step by step against an
    independent RFC 5802 server (harness/impl/c18_rfc_server.py) with server messages tampered
    with in transit, versus the model evaluated inside Coq with the hash primitives
    instantiated by ORACLE TABLES (hashlib / hmac / base64 values computed here for exactly
    the inputs that occur).  Emitted messages and the raised exception class / completion
    are compared byte for byte.  The Coq model of the RFC server is compared with the
    Python server too.
(3) monitors: the four clauses of the property stated directly on the real transcripts.
"""
import base64
import hashlib
import hmac as _hmac
import json
import os
import sys

from common import VERIF, Check, coq_Z, parse_coq_value, parse_eval_outputs, run_impl

sys.path.insert(0, os.path.join(os.path.dirname(os.path.abspath(__file__)), "impl"))
import c18_rfc_server as srv  # noqa: E402

MECHS = ["SCRAM-SHA-256", "SCRAM-SHA-512"]
ITER_CAP = 400000          # oracle entries are not computed above this iteration count

USERS = ["user", "alice", "a,b", "a=b", "=", ",", ",=", "=,", "=2C", "=3D", "a=2Cb,c", "u,,==",
         "=3D=2C", "2C", "n=x,r=y", "x" * 40, "müller", "用户", "🔑key", "a b", "tab\tname",
         "Ünï,cødé=", "ก,=ข", "A", "admin@example.com", "CN=svc,OU=kafka,O=acme"]
PASSWORDS = ["pencil", "pässwörd", "密码", "p,w=d", "", " ", "🔒🔒", "correct horse battery staple",
             "x" * 70, "é́", "pass\u0000word"]
NONCE_ALPHABET = [c for c in range(0x21, 0x7F) if c != 0x2C]


# ------------------------------------------------------------------------------ oracle tables
class Tab:
    """Computes H / HMAC / Hi / b64 / unb64 with the standard library and records every
    (input -> output) pair as the finite table handed to the Coq model."""

    def __init__(self, mech):
        self.mech = mech
        self.tH, self.tHMAC, self.tHi, self.tB64, self.tUn = {}, {}, {}, {}, {}

    def H(self, x):
        v = srv.HASHES[self.mech][1](x).digest()
        self.tH[x] = v
        return v

    def HMAC(self, k, m):
        v = _hmac.new(k, m, srv.HASHES[self.mech][1]).digest()
        self.tHMAC[(k, m)] = v
        return v

    def Hi(self, p, s, i):
        v = hashlib.pbkdf2_hmac(srv.HASHES[self.mech][0], p, s, i)
        self.tHi[(p, s, i)] = v
        return v

    def b64(self, x):
        v = base64.b64encode(x)
        self.tB64[x] = v
        return v

    def unb64(self, x):
        try:
            v = base64.b64decode(x)
        except Exception:  # noqa: BLE001  binascii.Error
            v = None
        self.tUn[x] = v
        return v

    def coq(self):
        def hx(b):
            return 'hx "' + b.hex() + '"'

        def lst(items):
            return "[" + "; ".join(items) + "]"
        return ("(Oracle.Build_tables "
                + lst(f"({hx(k)}, {hx(v)})" for k, v in self.tH.items()) + " "
                + lst(f"({hx(k)}, {hx(m)}, {hx(v)})" for (k, m), v in self.tHMAC.items()) + " "
                + lst(f"({hx(p)}, {hx(s)}, {coq_Z(i)}, {hx(v)})" for (p, s, i), v in self.tHi.items()) + " "
                + lst(f"({hx(k)}, {hx(v)})" for k, v in self.tB64.items()) + " "
                + lst(f"({hx(k)}, " + ("None" if v is None else f"Some ({hx(v)})") + ")"
                      for k, v in self.tUn.items()) + ")")


def xor(a, b):
    return bytes(x ^ y for x, y in zip(a, b))


def attr_values(msg: bytes, key: bytes):
    out = []
    for p in msg.split(b","):
        if b"=" in p:
            k, v = p.split(b"=", 1)
            if k == key:
                out.append(v)
    return out


def py_int_ascii(v: bytes):
    try:
        s = v.decode("ascii")
    except UnicodeDecodeError:
        return None
    try:
        return int(s)
    except ValueError:
        return None


def fill_client_side(T, user, pw, cnonce, sf, sfinal):
    """every primitive value a SCRAM client could need on these messages"""
    bare = b"n=" + user.replace(b"=", b"=3D").replace(b",", b"=2C") + b",r=" + cnonce
    rvals = attr_values(sf, b"r")
    salts = [T.unb64(v) for v in attr_values(sf, b"s")]
    its = [py_int_ascii(v) for v in attr_values(sf, b"i")]
    for salt in salts:
        if salt is None:
            continue
        for i in its:
            if i is None or not (1 <= i <= ITER_CAP):
                continue
            sp = T.Hi(pw, salt, i)
            ck = T.HMAC(sp, b"Client Key")
            sk = T.H(ck)
            sv = T.HMAC(sp, b"Server Key")
            for rn in rvals:
                auth = bare + b"," + sf + b",c=biws,r=" + rn
                T.b64(xor(ck, T.HMAC(sk, auth)))
                T.HMAC(sv, auth)
    for v in attr_values(sfinal, b"v"):
        T.unb64(v)


def fill_server_side(T, spw, cnonce, snonce, salt, i, cfirst, cfinal):
    T.b64(salt)
    sp = T.Hi(spw, salt, i)
    ck = T.HMAC(sp, b"Client Key")
    sk = T.H(ck)
    sv = T.HMAC(sp, b"Server Key")
    sf = b"r=" + cnonce + snonce + b",s=" + base64.b64encode(salt) + b",i=" + str(i).encode()
    auth = cfirst[3:] + b"," + sf + b",c=biws,r=" + cnonce + snonce
    cs = T.HMAC(sk, auth)
    T.b64(T.HMAC(sv, auth))
    k = cfinal.find(b",p=")
    if k >= 0:
        proof = T.unb64(cfinal[k + 3:])
        if proof is not None:
            T.H(xor(proof, cs))


# ------------------------------------------------------------------------------ case generation
def gen_cases(ck: Check):
    rng = ck.rng
    cases = []

    def base(mech=None, user=None, pw=None, salt_len=None, it=None, natural_nonce=False):
        mech = mech or rng.choice(MECHS)
        user = rng.choice(USERS) if user is None else user
        pw = rng.choice(PASSWORDS) if pw is None else pw
        sl = salt_len if salt_len is not None else rng.choice([1, 2, 3, 8, 12, 16, 16, 16, 24, 32, 48, 63, 64])
        if it is None:
            r = rng.random()
            it = rng.randrange(1, 65) if r < 0.55 else (4096 if r < 0.75 else rng.randrange(65, 4097))
        return {"mech": mech, "user": user, "password": pw, "server_password": pw,
                "salt": [rng.randrange(256) for _ in range(sl)], "iterations": it,
                "snonce": "".join(chr(rng.choice(NONCE_ALPHABET)) for _ in range(rng.choice([1, 8, 18, 24, 40]))),
                "uuid_int": None if natural_nonce else rng.getrandbits(128),
                "tamper1": [], "tamper2": [], "final_mode": "honest", "tag": "honest"}

    def add(b, tag, t1=None, t2=None, mode=None, **kw):
        c = dict(b)
        c.update(kw)
        c["tag"] = tag
        c["tamper1"] = t1 or []
        c["tamper2"] = t2 or []
        if mode:
            c["final_mode"] = mode
        cases.append(c)

    def cnonce_of(b):
        return ("%032x" % b["uuid_int"]).encode()

    # --- honest runs over the input space ------------------------------------------------
    for u in USERS:                                   # every user name, both mechanisms
        for mech in MECHS:
            add(base(mech=mech, user=u), "honest")
    for p in PASSWORDS:
        add(base(pw=p), "honest")
    for sl in (range(1, 65) if ck.thorough else [1, 2, 15, 16, 17, 31, 32, 33, 63, 64]):
        add(base(salt_len=sl, it=rng.randrange(1, 33)), "honest")
    for it in ([1, 2, 3, 4095, 4096, 8192, 10000, 19999, 20000] if ck.thorough else [1, 2, 4096, 20000]):
        for mech in MECHS:
            add(base(mech=mech, it=it), "honest")
    for _ in range(ck.n(20, 200)):                    # the client's own uuid4 nonce
        add(base(natural_nonce=True), "honest")
    for _ in range(ck.n(60, 1500)):
        add(base(), "honest")
    # honest runs whose ClientProof / ClientSignature / ClientKey has leading zero bytes (1 login in 256 by chance):
    # the server nonce is steered, with the reference implementation, until the expected proof starts with 0x00
    import sys as _sys
    _sys.path.insert(0, os.path.join(VERIF, "harness", "impl"))
    import c18_rfc_server as _srv
    for mech in MECHS:
        for _k in range(ck.n(3, 12)):
            b = base(mech=mech, it=rng.randrange(1, 9))
            if any(ch in b["user"] for ch in ",="):
                b["user"] = "user"
            cn = cnonce_of(b)
            salt = bytes(b["salt"])
            salted = _srv.hi_(mech, b["password"].encode("utf-8"), salt, b["iterations"])
            ckey = _srv.hmac_(mech, salted, b"Client Key")
            stored = _srv.h_(mech, ckey)
            for j in range(20000):
                sn = (b["snonce"] + "%d" % j).encode()
                sf = b"r=" + cn + sn + b",s=" + base64.b64encode(salt) + b",i=" + str(b["iterations"]).encode()
                auth = b"n=" + b["user"].encode("utf-8") + b",r=" + cn + b"," + sf + b",c=biws,r=" + cn + sn
                proof = _srv.xor(ckey, _srv.hmac_(mech, stored, auth))
                if proof[0] == 0:
                    add(b, "honest", snonce=sn.decode())
                    break
    # RFC 7677 test vector (SCRAM-SHA-256): nonce injection is not possible through uuid4
    # (not hex), so only credentials/salt/iterations of the vector are used
    add({"mech": "SCRAM-SHA-256", "user": "user", "password": "pencil", "server_password": "pencil",
         "salt": list(base64.b64decode("W22ZaJ0SNY7soEsUEjb6gQ==")), "iterations": 4096,
         "snonce": "%hvYDpWUa2RaTCAfuxFIlj)hNlF$k0", "uuid_int": 0x0123456789ABCDEF0123456789ABCDEF,
         "tamper1": [], "tamper2": [], "final_mode": "honest"}, "honest")
    # wrong password on one side: the honest server rejects the proof; a server that signs
    # without knowing the password must be rejected by the client
    for _ in range(ck.n(12, 120)):
        b = base()
        add(b, "wrongpw-honest", server_password=b["password"] + "x")
        add(b, "wrongpw-signs", server_password=b["password"] + "x", mode="sign_sent")
        add(b, "knows-signs", mode="sign_sent")

    # --- single-field tampering ----------------------------------------------------------
    nb = ck.n(2, 5)
    bases = [base(mech=MECHS[k % 2], user=["user", "a,b=c", "müller,="][k % 3],
                  salt_len=[16, 64, 1, 32, 7][k % 5], it=[4096, 7, 1, 100, 64][k % 5]) for k in range(nb)]
    for bi, b in enumerate(bases):
        cn = cnonce_of(b)
        sn = b["snonce"].encode()
        hlen = 32 if b["mech"].endswith("256") else 64
        full = ck.thorough or bi == 0
        # nonce prefix: every position of the client part
        for pos in range(32):
            for bit in (range(7) if full and ck.thorough else [0]):
                add(b, "nonce-flip", t1=[["attr", "r", ["flip", pos, 1 << bit]]])
        for pos in ([0, 1, 15, 30, 31] if not ck.thorough else range(32)):
            add(b, "nonce-del", t1=[["attr", "r", ["del", pos]]])
        add(b, "nonce-ins", t1=[["attr", "r", ["ins", 0, [0x61]]]])
        add(b, "nonce-ins", t1=[["attr", "r", ["ins", 16, [0x30]]]])
        for n in [0, 1, 16, 31]:
            add(b, "nonce-trunc", t1=[["attr", "r", ["trunc", n]]])
        add(b, "nonce-exact", t1=[["attr", "r", ["trunc", 32]]])          # server adds nothing
        add(b, "nonce-exact", t1=[["attr", "r", ["trunc", 32]]], mode="sign_sent")
        add(b, "nonce-swapped", t1=[["attr", "r", ["set", list(sn + cn)]]])
        add(b, "nonce-other", t1=[["attr", "r", ["set", list(b"%032x" % rng.getrandbits(128) + sn)]]])
        add(b, "nonce-upper", t1=[["attr", "r", ["set", list(cn.upper() + sn)]]])
        add(b, "nonce-drop", t1=[["drop", "r"]])
        add(b, "nonce-dup-bad-last", t1=[["dup_after", "r", list(b"evil" + sn)]])
        add(b, "nonce-dup-bad-first", t1=[["dup_before", "r", list(b"evil" + sn)]])
        add(b, "nonce-dup-bad-first", t1=[["dup_before", "r", list(b"evil" + sn)]], mode="sign_sent")
        # server part of the nonce altered (still extends the client nonce)
        add(b, "snonce-flip", t1=[["attr", "r", ["flip", 32, 1]]])
        add(b, "snonce-flip", t1=[["attr", "r", ["flip", 32, 1]]], mode="sign_sent")
        add(b, "snonce-append", t1=[["attr", "r", ["append", [0x7A]]]])
        # salt
        slen = len(b["salt"])
        bits = [(p, m) for p in range(slen) for m in range(8)]
        if not (ck.thorough and bi < 2):
            bits = rng.sample(bits, min(len(bits), 24))
        for p, m in bits:
            add(b, "salt-flip", t1=[["attr64", "s", ["flip", p, 1 << m]]])
            if rng.random() < 0.15:
                add(b, "salt-flip", t1=[["attr64", "s", ["flip", p, 1 << m]]], mode="sign_sent")
        add(b, "salt-trunc", t1=[["attr64", "s", ["trunc", slen - 1]]])
        add(b, "salt-append", t1=[["attr64", "s", ["append", [0]]]])
        add(b, "salt-empty", t1=[["attr", "s", ["set", []]]])
        add(b, "salt-badpad", t1=[["attr", "s", ["set", list(b"QUJD=")]]])
        add(b, "salt-badpad", t1=[["attr", "s", ["append", list(b"A")]]])
        add(b, "salt-garbage-chars", t1=[["attr", "s", ["ins", 1, list(b"!*")]]])
        add(b, "salt-garbage-chars", t1=[["attr", "s", ["ins", 1, list(b"!*")]]], mode="sign_sent")
        add(b, "salt-nonascii", t1=[["attr", "s", ["ins", 1, list("é".encode())]]])
        add(b, "salt-drop", t1=[["drop", "s"]])
        add(b, "salt-dup", t1=[["dup_after", "s", list(base64.b64encode(b"othersalt"))]])
        # iteration count
        it = b["iterations"]
        for v in [str(it + 1), str(max(1, it - 1)) if it > 1 else "2", str(it * 10), "0", "-1", "-" + str(it), "",
                  "abc", "+" + str(it), " " + str(it), str(it) + " ", "\t" + str(it) + "\n", str(it) + "_0",
                  "_" + str(it), str(it) + "_", "1__0", "0" + str(it), "0x10", str(it) + ".0", "1e3",
                  "2147483647" if False else "2147483648", "9223372036854775807", "9223372036854775808",
                  "-9223372036854775808", "-9223372036854775809", "1" + "0" * 30, "+", "-", "+-1", "1 0",
                  "\x1f" + str(it), "\x0b" + str(it), "\x0c" + str(it) + "\r"]:
            add(b, "iter-set", t1=[["attr", "i", ["set", list(v.encode())]]])
        add(b, "iter-same-other-spelling", t1=[["attr", "i", ["set", list(("+0" + str(it)).encode())]]],
            mode="sign_sent")
        add(b, "iter-drop", t1=[["drop", "i"]])
        add(b, "iter-dup", t1=[["dup_after", "i", list(b"1")]])
        # structure of server-first
        add(b, "sf-extra-attr", t1=[["extra", list(b"m=ext")]])
        add(b, "sf-extra-attr", t1=[["extra", list(b"m=ext")]], mode="sign_sent")
        add(b, "sf-trailing-comma", t1=[["raw", ["append", list(b",")]]])
        add(b, "sf-leading-comma", t1=[["raw", ["prepend", list(b",")]]])
        add(b, "sf-no-eq-pair", t1=[["extra", list(b"junk")]])
        add(b, "sf-empty-key", t1=[["extra", list(b"=x")]])
        add(b, "sf-reorder", t1=[["reorder", [2, 1, 0]]])
        add(b, "sf-reorder", t1=[["reorder", [1, 0, 2]]], mode="sign_sent")
        add(b, "sf-error", t1=[["raw", ["set", list(b"e=unknown-user")]]])
        add(b, "sf-empty", t1=[["raw", ["set", []]]])
        for bad in ([0xFF], [0xC3], [0xC0, 0x80], [0xED, 0xA0, 0x80], [0xF4, 0x90, 0x80, 0x80], [0xE2, 0x82]):
            add(b, "sf-bad-utf8", t1=[["raw", ["append", bad]]])
            add(b, "sf-bad-utf8", t1=[["attr", "r", ["append", bad]]])
        for good in ("é", "€", "𝄞", "퟿", "", "\U0010ffff"):
            add(b, "sf-nonascii", t1=[["attr", "r", ["append", list(good.encode())]]])
            add(b, "sf-nonascii", t1=[["attr", "r", ["append", list(good.encode())]]], mode="sign_sent")
        # server-final: the signature
        sbits = [(p, m) for p in range(hlen) for m in range(8)]
        if not full:
            sbits = rng.sample(sbits, 32)
        for p, m in sbits:
            add(b, "sig-flip", t2=[["attr64", "v", ["flip", p, 1 << m]]])
        for n in sorted({0, 1, hlen // 2, hlen - 1}):
            add(b, "sig-trunc", t2=[["attr64", "v", ["trunc", n]]])          # a prefix only
        add(b, "sig-append", t2=[["attr64", "v", ["append", [0]]]])
        add(b, "sig-zero", t2=[["attr64", "v", ["set", [0] * hlen]]])
        add(b, "sig-reverse", t2=[["attr64", "v", ["reverse"]]])
        add(b, "sig-text-flip", t2=[["attr", "v", ["flip", 3, 1]]])
        add(b, "sig-text-case", t2=[["attr", "v", ["swapcase"]]])
        add(b, "sig-badpad", t2=[["attr", "v", ["trunc", 5]]])
        add(b, "sig-badpad", t2=[["attr", "v", ["append", list(b"A")]]])
        add(b, "sig-garbage-chars", t2=[["attr", "v", ["ins", 2, list(b"!-")]]])      # lax base64: same bits
        add(b, "sig-garbage-tail", t2=[["attr", "v", ["append", list(b"=QUJD")]]])
        add(b, "sig-drop", t2=[["drop", "v"]])
        add(b, "sig-error", t2=[["raw", ["set", list(b"e=invalid-proof")]]])
        add(b, "sig-empty-msg", t2=[["raw", ["set", []]]])
        add(b, "sig-dup-bad-last", t2=[["dup_after", "v", list(base64.b64encode(bytes(hlen)))]])
        add(b, "sig-dup-bad-first", t2=[["dup_before", "v", list(base64.b64encode(bytes(hlen)))]])
        add(b, "sfin-extra", t2=[["extra", list(b"x=y")]])
        add(b, "sfin-no-eq-pair", t2=[["extra", list(b"junk")]])
        add(b, "sfin-bad-utf8", t2=[["raw", ["append", [0xFF]]]])
        add(b, "sfin-nonascii", t2=[["extra", list("k=é".encode())]])
        add(b, "sfin-upper-key", t2=[["raw", ["set", list(b"V=AAAA")]]])
    return cases


# ------------------------------------------------------------------------------ monitors
def expected_server_sig(mech, pw, salt, i, auth):
    return srv.hmac_(mech, srv.hmac_(mech, srv.hi_(mech, pw, salt, i), b"Server Key"), auth)


def lax_v(sfinal: bytes):
    """the decoded signature carried by a server-final of RFC form v=...; None if there is none"""
    try:
        sfinal.decode("utf-8")
    except UnicodeDecodeError:
        return None
    parts = sfinal.split(b",")
    if any(b"=" not in p for p in parts):
        return None
    vs = [p[2:] for p in parts if p.startswith(b"v=")]
    if not vs:
        return None
    if len(vs) != 1:
        return "ambiguous"
    try:
        return base64.b64decode(vs[0])
    except Exception:  # noqa: BLE001
        return None


def monitor(c, t):
    """The property on one real transcript.  -> list of (clause, message)"""
    bad = []
    ev = t["events"]
    user = c["user"].encode("utf-8")
    pw = c["password"].encode("utf-8")
    cnonce = t["client_nonce"].encode("ascii")
    if not ev or ev[0][0] != "Emit":
        return [("first_wellformed", "the client did not emit a client-first message")]
    cf = bytes(ev[0][1])
    # clause 1: client-first is a valid RFC 5802 message for (user, nonce)
    try:
        _, pu, pn = srv.parse_client_first(cf)
        if (pu, pn) != (user, cnonce):
            bad.append(("first_wellformed",
                        f"client-first {cf!r} parses to user {pu!r} nonce {pn!r}, expected {user!r} {cnonce!r}"))
    except srv.ProtocolError as e:
        bad.append(("first_wellformed", f"client-first {cf!r} violates the RFC 5802 grammar: {e}"))
    # clause 5 (end to end): the connection's SASL loop (AIOKafkaConnection._do_sasl_handshake, both wire
    # forms) reports a successful login exactly when the SCRAM exchange itself completed
    step_completed = bool(ev) and ev[-1] == ["Complete"]
    for hv, e in sorted((t.get("e2e") or {}).items()):
        if "driver_error" in e or e.get("outcome") == "ServerRejected":
            continue
        if e["outcome"] == "Authenticated" and not step_completed:
            bad.append(("e2e_login", f"the connection (SaslHandshake v{hv}) reports a successful login after "
                                     f"{e['tokens']} token(s) although the SCRAM exchange did not complete "
                                     f"(authenticator: {ev[-1] if ev else None})"))
        elif e["outcome"] != "Authenticated" and step_completed:
            bad.append(("e2e_login", f"the connection (SaslHandshake v{hv}) failed with {e['outcome']} although the "
                                     f"SCRAM exchange completes"))
    if "server_first_sent" not in t:
        return bad
    sf = bytes(t["server_first_sent"])
    emitted_final = len(ev) > 1 and ev[1][0] == "Emit"
    rfc = srv.parse_server_first_rfc(sf)
    # clause 3: nonce check (for messages with an unambiguous RFC reading)
    if rfc is not None and not rfc[0].startswith(cnonce) and emitted_final:
        bad.append(("nonce_check", f"server nonce {rfc[0]!r} does not extend client nonce {cnonce!r} "
                                   f"but the client sent client-final"))
    elif rfc is not None and not rfc[0].startswith(cnonce) and not (len(ev) == 2 and ev[1][0] == "Raised"):
        bad.append(("nonce_check", "client did not raise on a non-extending server nonce"))
    untampered = not c["tamper1"] and not c["tamper2"]
    honest = untampered and c["final_mode"] == "honest" and c["server_password"] == c["password"]
    # clause 2: honest server accepts, exchange completes, final message shape
    if honest:
        if not emitted_final:
            bad.append(("honest_server_accepts", f"client aborted an honest exchange: {ev[1:]}"))
        else:
            cfin = bytes(ev[1][1])
            want_prefix = b"c=biws,r=" + cnonce + c["snonce"].encode() + b",p="
            if not cfin.startswith(want_prefix):
                bad.append(("honest_server_accepts", f"client-final {cfin!r} does not repeat c=biws and the combined nonce"))
            if t.get("server_proof_ok") is not True:
                bad.append(("honest_server_accepts", "the RFC 5802 server rejected the client proof"))
            if ev[2:] != [["Complete"]]:
                bad.append(("honest_server_accepts", f"client did not complete with the honest server: {ev[2:]}"))
    # clause 4: completes iff v is exactly HMAC(ServerKey(password, salt, i), AuthMessage)
    if emitted_final and rfc is not None and rfc[2] <= ITER_CAP:
        cfin = bytes(ev[1][1])
        k = cfin.rfind(b",p=")
        auth = cf[3:] + b"," + sf + b"," + cfin[:k]
        want = expected_server_sig(c["mech"], pw, rfc[1], rfc[2], auth)
        got = lax_v(bytes(t["server_final_sent"]))
        completed = ev[2:] == [["Complete"]]
        raised = len(ev) == 3 and ev[2][0] == "Raised"
        if got != "ambiguous":
            if completed != (got == want):
                bad.append(("server_auth",
                            f"client {'completed' if completed else 'aborted'} although the server signature "
                            f"{'differs from' if got != want else 'equals'} HMAC(ServerKey, AuthMessage)"))
        if not (completed or raised):
            bad.append(("server_auth", f"client neither completed nor raised: {ev[2:]}"))
    return bad


# ------------------------------------------------------------------------------ main
def canon_model_events(v):
    out = []
    for e in v:
        if e == "Complete":
            out.append(["Complete"])
        elif isinstance(e, tuple) and e[0] == "Emit":
            out.append(["Emit", list(e[1])])
        elif isinstance(e, tuple) and e[0] == "Raised":
            out.append(["Raised", e[1]])
        else:
            out.append(["?", repr(e)])
    return out


def hxs(b):
    return 'hx "' + bytes(b).hex() + '"'


def case_public(c):
    return {k: c[k] for k in ("mech", "user", "password", "server_password", "salt", "iterations", "snonce",
                              "uuid_int", "tamper1", "tamper2", "final_mode", "tag")}


def evaluate(ck: Check, cases, res, label="cases"):
    """monitors + Coq correspondence on transcripts; returns (n_mismatch, n_monitor_violations)"""
    nviol = 0
    coq_items, srv_items = [], []
    # freshness: logins that let the client choose its own nonce (uuid4 not pinned by the harness) never share one -
    # with a repeated nonce a recorded server-first / server-final pair could be replayed to a later login
    seen_nonce = {}
    for c, t in zip(cases, res):
        if c.get("uuid_int") is None and "client_nonce" in t:
            if t["client_nonce"] in seen_nonce:
                nviol += 1
                ck.violation(f"nonce_fresh: two logins used the same client nonce {t['client_nonce']!r}: the server messages "
                             f"recorded from one could be replayed to the other",
                             {"case": case_public(c), "other_case": case_public(seen_nonce[t['client_nonce']]),
                              "clause": "nonce_fresh"}, signature="nonce_fresh")
                break
            seen_nonce[t["client_nonce"]] = c
    for idx, (c, t) in enumerate(zip(cases, res)):
        for hv, e in (t.get("e2e") or {}).items():
            if "driver_error" in e:
                ck.obligation(f"correspondence:e2e-driver:v{hv}", False, e["driver_error"])
        if "driver_error" in t:
            ck.obligation("correspondence:driver", False, t["driver_error"])
            continue
        for clause, msg in monitor(c, t):
            nviol += 1
            if nviol <= 12:
                ck.violation(f"{clause}: {msg}", {"case": case_public(c), "transcript": t, "clause": clause},
                             signature=f"{clause}:{c['tag']}:{c['user']}")
        ev = t["events"]
        user = c["user"].encode("utf-8")
        pw = c["password"].encode("utf-8")
        cnonce = t["client_nonce"].encode("ascii")
        sf = bytes(t.get("server_first_sent", []))
        sfin = bytes(t.get("server_final_sent", []))
        T = Tab(c["mech"])
        fill_client_side(T, user, pw, cnonce, sf, sfin)
        coq_items.append((idx, f"({T.coq()}, {hxs(user)}, {hxs(pw)}, {hxs(cnonce)}, {hxs(sf)}, {hxs(sfin)})"))
        if not c["tamper1"] and not c["tamper2"] and c["final_mode"] == "honest" and len(ev) >= 2 \
                and ev[1][0] == "Emit" and c["user"] != "":
            Ts = Tab(c["mech"])
            spw = c["server_password"].encode("utf-8")
            cf, cfin = bytes(ev[0][1]), bytes(ev[1][1])
            fill_server_side(Ts, spw, cnonce, c["snonce"].encode(), bytes(c["salt"]), c["iterations"], cf, cfin)
            srv_items.append((idx, f"({Ts.coq()}, {hxs(spw)}, {hxs(cnonce)}, {hxs(c['snonce'].encode())}, "
                                   f"{hxs(c['salt'])}, {coq_Z(c['iterations'])}, {hxs(cf)}, {hxs(cfin)})"))
        nontrivial = bool(c["tamper1"] or c["tamper2"] or c["final_mode"] != "honest"
                          or any(ch in c["user"] for ch in ",=") or not c["user"].isascii()
                          or not c["password"].isascii())
        ck.count(key=(c["mech"], c["user"], c["password"], len(c["salt"]), c["iterations"],
                      json.dumps(c["tamper1"]), json.dumps(c["tamper2"]), c["final_mode"]),
                 nontrivial=nontrivial,
                 sample={"tag": c["tag"], "mech": c["mech"], "user": c["user"], "tamper1": c["tamper1"],
                         "tamper2": c["tamper2"], "events": [e[0] if e[0] != "Raised" else e for e in ev]}
                 if c["tag"] in ("nonce-flip", "sig-flip", "honest") and idx % 97 == 0 else None)
    # ---- Coq evaluation, sharded
    nsh = max(1, min(16, len(coq_items) // 40))
    bodies = []
    for s in range(nsh):
        part = coq_items[s::nsh]
        spart = srv_items[s::nsh]
        body = "Import Oracle.\n"
        body += "Definition cs := [" + ";\n ".join(x for _, x in part) + "].\n"
        body += ("Eval vm_compute in (map (fun '(t, u, p, n, sf, sfin) => run_session t u p n sf sfin) cs).\n")
        if spart:
            body += "Definition ss := [" + ";\n ".join(x for _, x in spart) + "].\n"
            body += ("Eval vm_compute in (map (fun '(t, p, cn, sn, salt, i, cf, cfin) => "
                     "run_server t p cn sn salt i cf cfin) ss).\n")
        bodies.append((part, spart, body))
    outs = ck.coq_eval_sharded(f"c18_{label}", ["Imp", "C18_Scram"], [b for _, _, b in bodies])
    mism = 0
    first = ""
    nsrv = 0
    for (part, spart, _), (ok, out) in zip(bodies, outs):
        if not ok:
            mism += len(part)
            first = first or ("coqc failed: " + out[-600:])
            continue
        vals = [parse_coq_value(v) for v in parse_eval_outputs(out)]
        if len(vals) != (2 if spart else 1) or len(vals[0]) != len(part):
            mism += len(part)
            first = first or "unexpected Coq output shape"
            continue
        for (idx, _), mv in zip(part, vals[0]):
            me = canon_model_events(mv)
            re_ = res[idx]["events"]
            if me != re_:
                mism += 1
                c = cases[idx]
                if mism <= 5:
                    ck.violation(
                        f"model/implementation disagreement on a {c['tag']} exchange: real client "
                        f"{summ(re_)}, model {summ(me)}",
                        {"case": case_public(c), "transcript": res[idx], "model_events": me,
                         "clause": "correspondence"},
                        signature=f"correspondence:{c['tag']}:{c['user']}")
                first = first or f"case {idx} ({c['tag']}): impl {summ(re_)} / model {summ(me)}"
        if spart:
            for (idx, _), mv in zip(spart, vals[1]):
                nsrv += 1
                t = res[idx]
                c = cases[idx]
                want = (("Some", (list(c["user"].encode()), list(t["client_nonce"].encode()))),
                        list(t["server_first_orig"]), bool(t["server_proof_ok"]), list(t["server_final_orig"]))
                got = mv
                okv = (got[0] == want[0] and list(got[1]) == want[1] and got[2] == want[2]
                       and (list(got[3]) == want[3] or not want[2]))
                if not okv:
                    mism += 1
                    first = first or f"server model vs Python server, case {idx}: {str(got)[:200]} / {str(want)[:200]}"
    return mism, nviol, first, len(coq_items), nsrv


def summ(ev):
    return "[" + ", ".join(e[0] + (f"({len(e[1])}B)" if e[0] == "Emit" else f"({e[1]})" if e[0] == "Raised" else "")
                           for e in ev) + "]"


def run(ck: Check):
    ck.trusted += [
        "Coq 8.16.1 kernel (coqc); vm_compute for evaluating the model on oracle tables",
        "hashlib / hmac / base64 of the Python standard library: source of the oracle tables and of the "
        "independent RFC 5802 server (harness/impl/c18_rfc_server.py, written from the RFC text)",
        "model/C18_Scram.v is a hand-written model of conn.py:660-754; it is tied to the code only by the "
        "byte-for-byte correspondence run on every check",
        "str-level operations of the client are modelled on UTF-8 bytes (sound because ',' and '=' are ASCII and "
        "UTF-8 is prefix-free); int() is modelled for ASCII text only (Unicode digits/spaces in the i attribute are "
        "outside the model and not generated)",
        "cryptographic strength of HMAC/PBKDF2 (a server ignorant of the password cannot produce v) is NOT claimed",
        "the SASL loop of AIOKafkaConnection._do_sasl_handshake is not modelled: every exchange is run a second and "
        "third time through it (SaslAuthenticate requests and raw tokens; transport replaced by the RFC server) and "
        "its verdict must equal the authenticator's (monitor clause e2e_login)",
    ]
    ck.cov["rule"] = ("one evaluation = one complete exchange of the real ScramAuthenticator with the RFC 5802 "
                      "server (messages possibly tampered with), compared with the Coq model; non-trivial = "
                      "tampered / dishonest-server exchange or credentials containing ',' '=' or non-ASCII; distinct by "
                      "(mechanism, user, password, salt length, iterations, tamper ops, server mode)")
    ok_p, _ = ck.coq_props("C18")
    ck.log(f"proofs ok={ok_p}")
    cases = gen_cases(ck)
    # run the real client (PBKDF2 dominates): shard over processes
    import concurrent.futures as cf
    nsh = 8
    parts = [cases[k::nsh] for k in range(nsh)]
    with cf.ThreadPoolExecutor(max_workers=nsh) as ex:
        outs = list(ex.map(lambda p: run_impl("c18_impl.py", {"cases": p})["results"], parts))
    res = [None] * len(cases)
    for k, o in enumerate(outs):
        for j, r in enumerate(o):
            res[k + j * nsh] = r
    mism, nviol, first, ncoq, nsrv = evaluate(ck, cases, res)
    ck.obligation("correspondence:real-ScramAuthenticator-vs-model-on-oracle-tables", mism == 0,
                  first or f"{ncoq} exchanges agree byte for byte; {nsrv} server-model runs agree with the Python server")
    ck.obligation("monitor:property-on-real-transcripts", nviol == 0,
                  f"{nviol} clause violation(s)" if nviol else f"{len(cases)} transcripts satisfy the four clauses")
    hist = {}
    outcome = {}
    for c, t in zip(cases, res):
        hist[c["tag"]] = hist.get(c["tag"], 0) + 1
        ev = t.get("events", [])
        key = c["tag"] + " -> " + ("/".join(e[0] if e[0] != "Raised" else e[1] for e in ev[1:]) or "-")
        outcome[key] = outcome.get(key, 0) + 1
    ck.extra["cases_by_kind"] = hist
    ck.extra["outcomes_by_kind"] = outcome
    ck.extra["mechanisms"] = {m: sum(1 for c in cases if c["mech"] == m) for m in MECHS}
    ck.extra["iterations_max"] = max(c["iterations"] for c in cases)
    ck.extra["salt_lengths"] = sorted({len(c["salt"]) for c in cases})
    ck.log(f"{len(cases)} exchanges; {mism} model/impl disagreement(s); {nviol} monitor violation(s)")


def replay(ck: Check, path):
    rp = json.load(open(path))["replay"]
    c = rp["case"]
    t = run_impl("c18_impl.py", {"cases": [c]})["results"][0]
    print(json.dumps({"case": c, "transcript": t}, indent=1))
    bad = monitor(c, t)
    for clause, msg in bad:
        print(f"REPRODUCED {clause}: {msg}")
        ck.violation(f"{clause}: {msg}", {"case": c, "transcript": t, "clause": clause},
                     signature=f"{clause}:{c['tag']}:{c['user']}")
    mism, nviol, first, _, _ = evaluate(ck, [c], [t], label="replay")
    if mism:
        print("REPRODUCED model/implementation disagreement:", first)
    return ck.finish()
