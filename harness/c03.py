"""C03 — Consumer yields each visible record once, in offset order, from its position.

(1) proofs over model/C03_Fetcher.v (per-partition fetcher LTS + API-level spec automaton +
    scans), public statements props/C03.v;
(2) correspondence: the REAL AIOKafkaConsumer (manual assignment) under the deterministic
    simulator over generated logs (v2 batches, gzip, compaction holes, control batches, aborted
    and open transactions, legacy v0/v1 message sets, records appended while consuming), 1-3
    brokers, fetch responses cut at batch boundaries, tasks interleaving getone / getmany /
    seek / seek_to_* / pause / resume / position, leader changes, retriable fetch errors, drops,
    timeouts, retention.  Per partition the recorded boundary trace must be ACCEPTED by the
    fetcher model, the application-level trace by the spec automaton (both evaluated inside Coq
    by vm_compute) with equal final position / delivered runs; every scan of next_record /
    fetched_records must visit exactly the partitions the scan model says;
(3) independent monitors: the property itself on what the application saw vs the simulated
    logs (`visible` = data records, non-aborted under read_committed, below LSO/HW).
"""
import concurrent.futures as cf
import glob
import json
import os
import random
import re

import c03_loggen
import shutil

from common import (NPROC, PY, VERIF, Check, coq_bool, coq_list, coq_opt, coq_Z, parse_coq_value, parse_eval_outputs,
                    repo_env, sh)

RETRIABLE = [6, 3, 5, 7]     # NOT_LEADER, UNKNOWN_TOPIC_OR_PARTITION, LEADER_NOT_AVAILABLE, REQUEST_TIMED_OUT
FAULT_KINDS = ["drop_before", "drop_after", "no_reply", "error", "error", "delay"]


# ------------------------------------------------------------------------------------ scenarios
def log_len(ops):
    n = 0
    for op in ops:
        n += op["n"] if op["k"] in ("data", "legacy") else 1
    return n


def gen_tasks(rng, nparts, lens, ntasks, nops, policy):
    tasks = []
    for ti in range(ntasks):
        ops = []
        if policy == "none" and ti == 0:
            for p in range(nparts):
                ops.append({"op": "seek", "p": p, "to": rng.randrange(0, max(1, lens[p]))})
        elif policy == "none":
            ops.append({"op": "sleep", "t": 0.001})
        for _ in range(nops):
            r = rng.random()
            p = rng.randrange(nparts)
            parts = rng.choice([[], [], [p], sorted(rng.sample(range(nparts), rng.randrange(1, nparts + 1)))])
            if r < 0.30:
                ops.append({"op": "getone", "parts": parts, "timeout": rng.choice([0.05, 0.3, 1.0])})
            elif r < 0.55:
                ops.append({"op": "getmany", "parts": parts, "timeout_ms": rng.choice([0, 0, 20, 200]),
                            "max_records": rng.choice([None, None, 1, 2, 3, 5])})
            elif r < 0.68:
                to = rng.choice([rng.randrange(0, lens[p] + 1), rng.randrange(0, lens[p] + 1), 0, lens[p]])
                ops.append({"op": "seek", "p": p, "to": to})
                if rng.random() < 0.5:
                    ops.append({"op": "position", "p": p, "timeout": 0.5})
            elif r < 0.73:
                ops.append({"op": rng.choice(["seek_beg", "seek_end"]), "p": p})
            elif r < 0.80:
                ops.append({"op": "pause", "parts": parts or [p]})
            elif r < 0.87:
                ops.append({"op": "resume", "parts": parts or [p]})
            elif r < 0.94:
                ops.append({"op": "position", "p": p, "timeout": rng.choice([0.2, 1.0])})
            else:
                ops.append({"op": "sleep", "t": rng.choice([0.001, 0.01, 0.1, 0.4])})
        tasks.append(ops)
    return tasks


def gen_scenario(rng, sid, **over):
    brokers = rng.choice([1, 2, 3])
    nparts = rng.choice([1, 2, 3])
    iso = rng.choice([0, 1, 1])
    style = rng.random()
    logs = {}
    lens = []
    for p in range(nparts):
        legacy = style < 0.12
        ops = c03_loggen.gen_log(rng, rng.randrange(3, 16), txn=not legacy, compaction=rng.random() < 0.7,
                                 gzip=True, legacy=legacy, late_frac=rng.choice([0, 0, 0.3, 0.5]),
                                 late_span=rng.choice([0.3, 2.0]), open_tail=(iso == 1 and rng.random() < 0.25))
        logs[str(p)] = ops
        lens.append(log_len(ops))
    policy = rng.choice(["earliest", "earliest", "latest", "none"])
    nf = rng.choice([0, 0, 1, 2, 3, 5])
    faults = {}
    for _ in range(nf):
        o = rng.randrange(1, 25)
        kind = rng.choice(FAULT_KINDS)
        f = {"kind": kind}
        if kind == "error":
            f["code"] = rng.choice(RETRIABLE + ([1] if policy != "none" and rng.random() < 0.3 else []))
        if kind == "delay":
            f["delay"] = rng.choice([0.05, 0.3, 1.0])
        faults[str(o)] = f
    sc = {"id": sid, "seed": rng.randrange(1 << 30), "brokers": brokers, "partitions": nparts, "iso": iso,
          "policy": policy, "logs": logs,
          "fetch_cut": rng.choice([None, [1], [1, 2, 3], [2, 1, 5], [100]]),
          "max_partition_fetch_bytes": rng.choice([1048576, 1048576, 200, 600]),
          "fetch_max_wait_ms": rng.choice([50, 100, 400]),
          "max_poll_records": rng.choice([None, None, 2, 4]),
          "request_timeout_ms": 1500, "retry_backoff_ms": rng.choice([20, 50]),
          "metadata_max_age_ms": rng.choice([1000, 5000]),
          "latency": rng.choice([[0.001, 0.004], [0.001, 0.05], [0.0005, 0.001]]),
          "faults": faults, "migrations": [], "leaderless": [], "log_start_moves": [],
          "tasks": gen_tasks(rng, nparts, lens, rng.choice([1, 2, 2, 3]), rng.randrange(4, 14), policy),
          "drain": 40.0}
    if brokers > 1 and rng.random() < 0.4:
        for _ in range(rng.choice([1, 2])):
            sc["migrations"].append({"at": rng.choice([0.003, 0.02, 0.2, 0.8]), "partition": rng.randrange(nparts),
                                     "to": rng.randrange(brokers)})
    if rng.random() < 0.15:
        sc["leaderless"].append({"at": rng.choice([0.0, 0.01, 0.2]), "partition": rng.randrange(nparts),
                                 "for": rng.choice([0.3, 1.0])})
    if policy != "none" and rng.random() < 0.15:
        p = rng.randrange(nparts)
        sc["log_start_moves"].append({"at": rng.choice([0.005, 0.05, 0.5]), "partition": p,
                                      "to": rng.randrange(0, lens[p] + 1)})
    sc.update(over)
    return sc


def run_sim_impl(script, payload, timeout=600):
    """like common.run_impl, with address-space randomisation off: iteration order of sets of
    futures / tasks (hashed by address) is then the same in every run of the same scenario."""
    cmd = [PY, os.path.join(VERIF, "harness", "impl", script)]
    if shutil.which("setarch"):
        cmd = ["setarch", os.uname().machine, "-R"] + cmd
    rc, out = sh(cmd, timeout=timeout, env=repo_env({"AIOKAFKA_NO_EXTENSIONS": "1"}), input=json.dumps(payload))
    if rc != 0:
        raise RuntimeError(f"impl script {script} failed rc={rc}: {out[-2000:]}")
    return json.loads(out.strip().splitlines()[-1])


def run_scenarios(scs, timeout=900, shards=None, script="c03_sim.py"):
    if not scs:
        return []
    shards = shards or min(NPROC, max(1, len(scs) // 3))
    chunks = [scs[i::shards] for i in range(shards)]
    res = {}
    with cf.ThreadPoolExecutor(max_workers=shards) as ex:
        futs = [ex.submit(run_sim_impl, script, {"scenarios": ch}, timeout) for ch in chunks if ch]
        for fu in futs:
            try:
                for r in fu.result()["results"]:
                    res[r["id"]] = r
            except Exception as e:  # noqa: BLE001
                res.setdefault("_err", str(e)[-600:])
    return [res.get(sc["id"], {"id": sc["id"], "ok": False, "error": "no result: " + res.get("_err", "")}) for sc in scs]


# ------------------------------------------------------------------------------------ projection
def project(sc, r, p):
    """Internal per-partition trace (constructors of C03_Fetcher.ev), the application-level
    trace (aev), plus what the harness expects the model to output."""
    truth = r["truth"][str(p)]
    by_last = {b[1]: b for b in truth["batches"]}
    tr, atr, problems = [], [], []
    for e in r["trace"]:
        k = e["ev"]
        if k.startswith("c_") and e.get("p") != p:
            continue
        if k == "c_fetch_sent":
            tr.append(("FetchSent", e["o"]))
        elif k == "c_fetch_resp":
            bs = []
            for last in e["lasts"]:
                if last in by_last:
                    bs.append(by_last[last])
                else:
                    problems.append(f"fetch response contains a batch ending at {last} that is not in the log below the bound")
            tr.append(("FetchResp", e["o"], e["code"], bs))
        elif k == "c_fetch_fail":
            tr.append(("FetchFail", e["o"]))
        elif k == "c_hand_one":
            tr.append(("HandOne", e["res"]))
        elif k == "c_hand_many":
            tr.append(("HandMany", e["mx"], e["res"]))
        elif k == "c_set_error":
            if e["exc"] == "NoOffsetForPartitionError":
                tr.append(("SetErr", -1))
        elif k == "c_raise":
            tr.append(("RaiseErr", 1 if e["exc"] == "OffsetOutOfRangeError" else
                       (29 if e["exc"] == "TopicAuthorizationFailedError" else -1)))
        elif k == "c_seek":
            tr.append(("Seek", e["o"]))
        elif k == "c_seek_reset":
            tr.append(("SeekReset",))
        elif k == "c_await_reset":
            atr.append(("ALose",))
        elif k == "c_reset_to":
            tr.append(("ResetTo", e["o"]))
            atr.append(("AReset", e["o"]))
        elif k == "c_pause":
            tr.append(("Pause",))
        elif k == "c_resume":
            tr.append(("Resume",))
        elif k == "a_position" and e["p"] == p and e["pos"] is not None:
            tr.append(("Position", e["pos"]))
            atr.append(("APosition", e["pos"]))
        elif k == "a_final" and e["p"] == p and e["pos"] is not None:
            tr.append(("Position", e["pos"]))
            atr.append(("APosition", e["pos"]))
        elif k == "a_getone" and e["rec"] is not None and e["rec"]["p"] == p:
            atr.append(("ADeliver", e["rec"]["o"]))
        elif k == "a_getmany":
            for m in e["recs"].get(str(p), []):
                atr.append(("ADeliver", m["o"]))
        elif k == "a_seek" and e["p"] == p:
            atr.append(("ASeek", e["o"]))
        elif k == "a_pause" and p in e["parts"]:
            atr.append(("APause",))
        elif k == "a_resume" and p in e["parts"]:
            atr.append(("AResume",))
    # what the application saw, as runs (start, [delivered]) — the harness' own bookkeeping
    runs = []
    cur = None
    for e in atr:
        if e[0] in ("ASeek", "AReset"):
            if cur is not None:
                runs.append(cur)
            cur = [e[1], []]
        elif e[0] == "ALose":
            if cur is not None:
                runs.append(cur)
            cur = None
        elif e[0] == "ADeliver":
            if cur is None:
                problems.append(f"record {e[1]} delivered without a valid position")
                cur = [e[1], []]
            cur[1].append(e[1])
    if cur is not None:
        runs.append(cur)
    return tr, atr, runs, problems


def coq_batch(b):
    return f"mkB {coq_Z(b[0])} {coq_Z(b[1])} {coq_list(b[2])}"


def coq_ev(e):
    k = e[0]
    if k == "FetchResp":
        return f"FetchResp {coq_Z(e[1])} {coq_Z(e[2])} {coq_list(e[3], coq_batch)}"
    if k == "HandOne":
        return f"HandOne {coq_opt(e[1], coq_Z)}"
    if k == "HandMany":
        return f"HandMany {coq_opt(e[1], coq_Z)} {coq_list(e[2])}"
    if len(e) == 1:
        return k
    return f"{k} {coq_Z(e[1])}"


def coq_aev(e):
    return e[0] if len(e) == 1 else f"{e[0]} {coq_Z(e[1])}"


# ------------------------------------------------------------------------------------ scans
def scans_of(sc, r):
    """Every pass of next_record / fetched_records over Fetcher._records: the order observed at
    its start, the filter of the API call in progress, and what was handed out."""
    cur_call = {}
    out = []
    tr = r["trace"]
    i = 0
    while i < len(tr):
        e = tr[i]
        if e["ev"] == "a_call":
            cur_call[e["task"]] = e
        if e["ev"] == "c_scan":
            task = e["task"]
            call = cur_call.get(task)
            j = i + 1
            seen = []
            while j < len(tr) and tr[j]["ev"] in ("c_hand_one", "c_hand_many", "c_raise") and tr[j].get("task") == task:
                seen.append(tr[j])
                j += 1
            if call is not None and call["op"] in ("getone", "getmany"):
                mx = call.get("mx") if call["op"] == "getmany" else None
                if call["op"] == "getmany" and mx is None:
                    mx = sc.get("max_poll_records")
                out.append({"kind": call["op"], "filt": call["parts"], "order": e["order"], "mx": mx, "seen": seen,
                            "t": e["t"]})
            i = j
            continue
        i += 1
    return out


def coq_scan_case(s):
    filt = coq_list(s["filt"], lambda x: f"{x}%nat")
    order = coq_list(s["order"], lambda o: f"({o[0]}%nat, {coq_bool(o[1])})")
    if s["kind"] == "getone":
        results = coq_list([x["res"] for x in s["seen"] if x["ev"] == "c_hand_one"], lambda v: coq_opt(v, coq_Z))
        return f"(fst (scan_one {filt} {order} {results}))"
    results = coq_list([x["res"] for x in s["seen"] if x["ev"] == "c_hand_many"], coq_list)
    return f"(scan_many {filt} {order} {coq_opt(s['mx'], coq_Z)} {results} false)"


def scan_expect(s):
    """what was observed, in the shape the Coq function returns"""
    raised = [x["p"] for x in s["seen"] if x["ev"] == "c_raise"]
    if s["kind"] == "getone":
        return ([(x["p"], x["res"]) for x in s["seen"] if x["ev"] == "c_hand_one"], raised[0] if raised else None)
    return ([(x["p"], x["mx"], x["res"]) for x in s["seen"] if x["ev"] == "c_hand_many"], raised[0] if raised else None)


def norm_scan(v, kind):
    def opt(x):
        return x[1] if isinstance(x, tuple) and x and x[0] == "Some" else None
    visits, err = v
    if kind == "getone":
        return ([(a, opt(b)) for (a, b) in visits], opt(err))
    return ([(a, opt(m), list(rs)) for (a, m, rs) in visits], opt(err))


# ------------------------------------------------------------------------------------ monitor
def monitor(ck, sc, r):
    """The property itself, on what the application saw vs the simulated logs."""
    bad = 0
    nparts = sc["partitions"]
    tr = r["trace"]

    per_part = {}

    def viol(what, p, extra=None, sig=None):
        nonlocal bad
        bad += 1
        per_part[p] = per_part.get(p, 0) + 1
        if per_part[p] > 3:          # the first few per partition are enough for a replay
            return
        rp = {"scenario": sc, "partition": p, "what": what}
        if extra:
            rp.update(extra)
        ck.violation(f"{what} (scenario {sc['id']}, partition {p})", rp, signature=sig or f"sim:{what[:70]}")

    if sc.get("expect_no_timeout"):
        # every record of this scenario is in the log seconds before the getone() for its partition gives up
        for e in tr:
            if e["ev"] == "a_getone" and e.get("rec") is None:
                viol(f"getone({e.get('parts')}) of task {e.get('task')} was still blocked when it gave up, although the "
                     f"record it waits for had been in the log (and fetched) for seconds: delivery does not continue to "
                     f"the end of the log", (e.get("parts") or [None])[0], {"event": e},
                     sig="sim:blocked-getone-not-woken")
    for e in tr:
        if e["ev"] == "a_exc":
            expected = sc["policy"] == "none" and e["exc"] in ("NoOffsetForPartitionError", "OffsetOutOfRangeError")
            if not expected:
                viol(f"{e['op']}() raised {e['exc']}: {e.get('msg', '')[:80]}", None, {"event": e},
                     sig=f"sim:unexpected-exception:{e['exc']}")
        # filtered-out partitions
        if e["ev"] == "a_getone" and e["rec"] is not None and e["parts"] and e["rec"]["p"] not in e["parts"]:
            viol("getone(*partitions) returned a record of a partition outside the argument", e["rec"]["p"], {"event": e})
        if e["ev"] == "a_getmany" and e["parts"]:
            for k in e["recs"]:
                if int(k) not in e["parts"]:
                    viol("getmany(*partitions) returned records of a partition outside the argument", int(k), {"event": e})
        if e["ev"] == "a_getmany" and e["mx"] is not None and sum(len(v) for v in e["recs"].values()) > e["mx"]:
            viol("getmany(max_records) returned more records than asked", None, {"event": e})
    if r.get("fetch_task_done"):
        viol("the background fetch routine terminated", None, sig="sim:fetch-routine-died")
    for p in range(nparts):
        truth = r["truth"][str(p)]
        visible = [o for b in truth["batches"] for o in b[2]]
        vset = set(visible)
        recs = truth["records"]
        ptr = None            # next offset the application is entitled to (None: no valid position)
        paused = False
        last_seek = None      # (index, offset) of a seek not yet followed by anything on this partition
        delivered_since = []

        def first_visible_from(o):
            for v in visible:
                if v >= o:
                    return v
            return None

        def deliver(m, e):
            nonlocal ptr
            o = m["o"]
            if paused:
                viol(f"record {o} returned while the partition is paused", p, {"event": e})
            if o not in vset:
                viol(f"record {o} is not a visible record of the log (control / aborted / beyond the bound / never written)",
                     p, {"event": e})
            elif recs[str(o)] != [m["k"], m["v"]]:
                viol(f"record {o} returned with a different key/value than the log holds", p, {"event": e, "log": recs[str(o)]})
            if ptr is None:
                viol(f"record {o} returned while the partition has no valid position", p, {"event": e})
            else:
                if o < ptr:
                    viol(f"record {o} returned again or out of order (position was {ptr})", p,
                         {"event": e, "delivered_since_start": delivered_since[-10:]})
                else:
                    fv = first_visible_from(ptr)
                    if fv is not None and fv < o:
                        viol(f"visible record {fv} skipped: {o} returned with position {ptr}", p,
                             {"event": e, "delivered_since_start": delivered_since[-10:]})
            ptr = o + 1
            delivered_since.append(o)

        for i, e in enumerate(tr):
            k = e["ev"]
            if k == "a_seek" and e["p"] == p:
                ptr = e["o"]
                delivered_since = []
                last_seek = (i, e["o"])
                continue
            if k == "c_await_reset" and e["p"] == p:
                ptr = None
                delivered_since = []
            elif k == "c_reset_to" and e["p"] == p:
                ptr = e["o"]
                delivered_since = []
            elif k == "a_pause" and p in e["parts"]:
                paused = True
            elif k == "a_resume" and p in e["parts"]:
                paused = False
            elif k == "a_getone" and e["rec"] is not None and e["rec"]["p"] == p:
                deliver(e["rec"], e)
            elif k == "a_getmany" and str(p) in e["recs"]:
                for m in e["recs"][str(p)]:
                    deliver(m, e)
            elif k in ("a_position", "a_final") and e["p"] == p and e["pos"] is not None:
                pos = e["pos"]
                if ptr is None:
                    viol(f"position() = {pos} while no position was established", p, {"event": e})
                else:
                    if pos < ptr:
                        viol(f"position() = {pos} is behind one past the last returned record / the start ({ptr})", p, {"event": e})
                    fv = first_visible_from(ptr)
                    if fv is not None and fv < pos:
                        viol(f"position() = {pos} is ahead of visible record {fv} that has not been returned", p, {"event": e})
                    if last_seek is not None and k == "a_position" and pos != last_seek[1]:
                        # position() issued by the same task directly after seek(): nothing ran in between
                        prev = [x for x in tr[last_seek[0] + 1:i] if x["ev"] != "a_call"]
                        if not prev:
                            viol(f"position() = {pos} right after seek({last_seek[1]})", p, {"event": e})
                    ptr = max(ptr, pos)
            if k.startswith(("a_", "c_hand", "c_reset", "c_await")) and k not in ("a_call",) and last_seek and i > last_seek[0]:
                if e.get("p") == p or k in ("a_getone", "a_getmany"):
                    last_seek = None
        # liveness: after the quiet period the application has everything up to the bound
        fin = r["final"][str(p)]
        if fin["pos"] is None:
            if sc["policy"] != "none":
                viol("no valid position at the end of the quiet period", p, sig="sim:no-position-at-end")
        else:
            end = truth["batches"][-1][1] + 1 if truth["batches"] else 0
            if fin["pos"] < end:
                viol(f"delivery stopped at {fin['pos']} before the end of the log ({end}) in the quiet period", p,
                     {"final": fin, "log_end": end}, sig="sim:stuck-before-log-end")
            elif ptr is not None:
                rest = [v for v in visible if v >= ptr]
                if rest:
                    viol(f"visible records {rest[:5]} never delivered although the position reached {fin['pos']}", p,
                         {"final": fin}, sig="sim:records-never-delivered")
    return bad


# ------------------------------------------------------------------------------------ main
def replay_body(cases):
    lines = []
    items = []
    for i, c in enumerate(cases):
        lines.append(f"Definition L{i} : list batch := {coq_list(c['batches'], coq_batch)}.")
        items.append(f"(replay {coq_bool(c['none'])} L{i} {coq_list(c['tr'], coq_ev)}, "
                     f"areplay L{i} {coq_list(c['atr'], coq_aev)}, wf_log L{i})")
    lines.append("Eval vm_compute in [" + ";\n ".join(items) + "].")
    return "\n".join(lines) + "\n"


def opt_val(x):
    return x[1] if isinstance(x, tuple) and x and x[0] == "Some" else None


def check_models(ck, cases, scan_cases, prefix="c03"):
    for fn in glob.glob(os.path.join(VERIF, "coq", "run", prefix + "_traces_*")):
        try:
            os.remove(fn)          # leftovers of a larger earlier run
        except OSError:
            pass
    per = max(20, (len(cases) + 11) // 12)
    bodies = [replay_body(cases[i:i + per]) for i in range(0, len(cases), per)]
    # scans: evaluate each distinct (kind, filter, order, results) once
    sper = 1500
    sbodies = []
    schunks = []
    for kind in ("getone", "getmany"):
        uniq = {}
        for s in scan_cases:
            if s["kind"] == kind:
                uniq.setdefault(coq_scan_case(s), []).append(s)
        keys = list(uniq)
        for i in range(0, len(keys), sper):
            chunk = keys[i:i + sper]
            schunks.append([uniq[k] for k in chunk])
            sbodies.append("Eval vm_compute in [" + ";\n ".join(chunk) + "].\n")
    res = ck.coq_eval_sharded(prefix + "_traces", ["C03_Fetcher"], bodies + sbodies)
    rejected = mismatched = coq_fail = 0
    accepted = 0
    for ci in range(len(bodies)):
        okc, out = res[ci]
        chunk = cases[ci * per:(ci + 1) * per]
        if not okc:
            coq_fail += 1
            ck.log("coq evaluation failed:", out[-600:])
            continue
        vals = parse_coq_value(parse_eval_outputs(out)[0]) if chunk else []
        if len(vals) != len(chunk):
            coq_fail += 1
            continue
        for k, c in enumerate(chunk):
            v, av, wf = vals[k]
            name = f"scenario{c['sc']['id']}-p{c['p']}"
            good = True
            if wf is not True:
                mismatched += 1
                good = False
                ck.obligation(f"correspondence:simulated-log-is-well-formed:{name}", False, str(c["batches"])[:300])
            if isinstance(v, tuple) and v[0] == "inr":
                rejected += 1
                good = False
                idx = v[1]
                if rejected <= 6:
                    ctx = [coq_ev(x)[:160] for x in c["tr"][max(0, idx - 6):idx + 1]]
                    ck.obligation(f"correspondence:trace-accepted-by-fetcher-model:{name}", False,
                                  f"model rejects event #{idx}; context (last = rejected): {ctx}")
                    # the rejected history is the concrete failing input: the scenario replays it on the real code
                    ck.violation(f"the real consumer did something the consumer model (whose guards are the property's "
                                 f"clauses) does not allow: partition {c['p']} of scenario {c['sc']['id']}, event #{idx} "
                                 f"{ctx[-1] if ctx else ''} after {ctx[:-1]}",
                                 {"scenario": c["sc"], "partition": c["p"], "rejected_event_index": idx, "context": ctx},
                                 signature=f"trace-rejected:{(ctx[-1] if ctx else '').split(' ')[0]}")
            else:
                (mpos, mpaused, msegs) = v[1]
                mruns = [[s[0], list(s[2])] for s in msegs]
                if opt_val(mpos) != c["final"]["pos"] or mpaused != c["final"]["paused"] or \
                        [x for x in mruns if x[1]] != [x for x in c["runs"] if x[1]]:
                    mismatched += 1
                    good = False
                    if mismatched <= 6:
                        ck.obligation(f"correspondence:model-output-equals-observed:{name}", False,
                                      f"model pos={opt_val(mpos)} paused={mpaused} runs={mruns} vs observed "
                                      f"{c['final']} runs={c['runs']}"[:900])
            if isinstance(av, tuple) and av[0] == "inr":
                rejected += 1
                good = False
                idx = av[1]
                if rejected <= 6:
                    ctx = [coq_aev(x) for x in c["atr"][max(0, idx - 6):idx + 1]]
                    ck.obligation(f"correspondence:application-trace-accepted-by-spec:{name}", False,
                                  f"spec automaton rejects event #{idx}; context (last = rejected): {ctx}")
            else:
                (apos, asegs) = av[1]
                aruns = [[s[0], list(s[2])] for s in asegs]
                if opt_val(apos) != c["final"]["pos"] or [x for x in aruns if x[1]] != [x for x in c["runs"] if x[1]]:
                    mismatched += 1
                    good = False
                    if mismatched <= 6:
                        ck.obligation(f"correspondence:spec-output-equals-observed:{name}", False,
                                      f"spec pos={opt_val(apos)} runs={aruns} vs observed {c['final']} {c['runs']}"[:900])
            if c["problems"]:
                mismatched += 1
                good = False
                ck.obligation(f"correspondence:projection:{name}", False, "; ".join(c["problems"])[:400])
            accepted += good
    scan_bad = 0
    for si in range(len(sbodies)):
        okc, out = res[len(bodies) + si]
        chunk = schunks[si]
        if not okc:
            coq_fail += 1
            ck.log("coq evaluation failed:", out[-600:])
            continue
        vals = parse_coq_value(parse_eval_outputs(out)[0])
        if len(vals) != len(chunk):
            coq_fail += 1
            continue
        for s, v in [(s, v) for group, v in zip(chunk, vals) for s in group]:
            want = scan_expect(s)
            got = norm_scan(v, s["kind"])
            if got != want:
                scan_bad += 1
                if scan_bad <= 4:
                    ck.obligation(f"correspondence:scan-visits:{s['sid']}@{s['t']}", False,
                                  f"{s['kind']} filter={s['filt']} order={s['order']} mx={s['mx']}: model {got} vs observed {want}"[:700])
    return accepted, rejected, mismatched, coq_fail, scan_bad


def check_tpstate(ck):
    """The translated TopicPartitionState methods (gen/TpStateGen.v) against the real class on random operation
    sequences (state after every operation, or the AssertionError)."""
    from common import parse_eval_outputs, run_impl
    rng = random.Random(ck.seed * 31 + 77)
    ops = ["await_reset", "consumed_to", "reset_to", "seek", "pause", "resume"]
    seqs = []
    for _ in range(ck.n(300, 3000)):
        seq = []
        for _ in range(rng.randrange(1, 9)):
            o = rng.choice(ops)
            seq.append([o] if o in ("pause", "resume") else [o, rng.choice([0, 1, 2, 7, 40, 2 ** 40])])
        seqs.append(seq)
    real = run_impl("c03_tps_impl.py", {"seqs": seqs}, env={"AIOKAFKA_NO_EXTENSIONS": "1"})["out"]
    body = ["Import TpStateGen.",
            "Definition show (t : tps) := (t_position t, t_reset t, t_status t, t_paused t).",
            "Fixpoint runops (t : tps) (l : list (tps -> option tps)) : list (option (option Z * option Z * Z * bool)) :=",
            "  match l with [] => [] | f :: r => match f t with Some t' => Some (show t') :: runops t' r | None => [None] end end."]
    for seq in seqs:
        fs = "; ".join(f"(fun t => {o[0]}_py t{(' (' + str(o[1]) + ')') if len(o) > 1 else ''})" for o in seq)
        body.append(f"Eval vm_compute in runops tps_init [{fs}].")
    ok, out = ck.coq_eval("c03_tps", ["C03_TpState", "TpStateGen"], "\n".join(body) + "\n")
    vals = parse_eval_outputs(out) if ok else []
    bad = []
    if ok and len(vals) == len(seqs):
        for seq, r, v in zip(seqs, real, vals):
            exp = []
            for x in r:
                if x == "SKIP":
                    break
                if x == "ASSERT":
                    exp.append("None")
                    break
                pos, rs, st, pa = x
                f = lambda z: "None" if z is None else f"Some {z}"      # noqa: E731
                exp.append(f"Some ({f(pos)}, {f(rs)}, {st}, {'true' if pa else 'false'})")
            got = re.sub(r"%Z|\s+", "", str(v))
            want = re.sub(r"\s+", "", "[" + "; ".join(exp) + "]")
            if got.replace("(", "").replace(")", "") != want.replace("(", "").replace(")", ""):
                bad.append({"ops": seq, "real": r, "coq": str(v)})
            ck.count(key=("tps", json.dumps(seq)), nontrivial=len(seq) > 2)
    ck.obligation("correspondence:translated-TopicPartitionState-methods-vs-real-class",
                  ok and len(vals) == len(seqs) and not bad,
                  f"{len(seqs)} sequences; " + (json.dumps(bad[0])[:300] if bad else (out[-200:] if not ok else "all agree")))
    for b in bad[:3]:
        ck.violation("TopicPartitionState method disagrees with its translation (translator or model fault unless the "
                     "property monitors also fail)", b, signature="tps-differential", no_input=True)


def collect(ck, scs, results, hist):
    cases, scan_cases = [], []
    nbad = 0
    for sc, r in zip(scs, results):
        if not r.get("ok") and str(r.get("error", "")).startswith("WallTimeout"):
            # run it once more, alone (an overloaded machine can make a healthy scenario slow)
            r2 = run_scenarios([sc], timeout=400)[0]
            if r2.get("ok"):
                r = r2
            else:
                hist["failed_runs"] += 1
                nbad += 1
                ck.violation(f"the consumer run did not finish: the client or the application calling it loops without "
                             f"making progress (scenario {sc['id']}): {r2.get('error', '')[:200]}",
                             {"scenario": sc, "what": "run did not finish", "error": r2.get("error", "")[:400]},
                             signature="sim:run-did-not-finish")
                continue
        if not r.get("ok"):
            hist["failed_runs"] += 1
            ck.obligation(f"correspondence:simulation-ran:{sc['id']}", False, (r.get("error", "") + r.get("tb", ""))[-600:])
            continue
        nbad += monitor(ck, sc, r)
        for f in (sc.get("faults") or {}).values():
            hist["faults"][f["kind"]] = hist["faults"].get(f["kind"], 0) + 1
        hist["iso"][str(sc["iso"])] += 1
        hist["policy"][sc["policy"]] = hist["policy"].get(sc["policy"], 0) + 1
        nt = str(len(sc.get("tasks") or []))
        hist["tasks"][nt] = hist["tasks"].get(nt, 0) + 1
        for ops in (sc.get("logs") or {}).values():
            hist["legacy_partitions"] += any(op["k"] == "legacy" for op in ops)
            hist["gzip_batches"] += sum(1 for op in ops if op.get("gzip"))
            hist["late_appends"] += sum(1 for op in ops if op.get("at") is not None)
        for s in scans_of(sc, r):
            s["sid"] = sc["id"]
            scan_cases.append(s)
            hist["scans"] += 1
            if s["filt"]:
                hist["scans_with_filter"] += 1
        for p in range(sc["partitions"]):
            tr, atr, runs, problems = project(sc, r, p)
            truth = r["truth"][str(p)]
            cases.append({"sc": sc, "p": p, "tr": tr, "atr": atr, "runs": runs, "problems": problems,
                          "batches": truth["batches"], "none": sc["policy"] == "none", "final": r["final"][str(p)]})
            stale = 0
            posn = None
            for e in tr:
                if e[0] in ("Seek", "ResetTo"):
                    posn = e[1]
                elif e[0] in ("HandOne", "HandMany", "SeekReset"):
                    posn = "?"
                elif e[0] == "FetchResp" and posn not in (None, "?") and e[1] != posn:
                    stale += 1
            hist["stale_responses_after_seek"] += stale
            hist["deliveries"] += sum(1 for e in atr if e[0] == "ADeliver")
            hist["seeks"] += sum(1 for e in atr if e[0] == "ASeek")
            hist["empty_handouts"] += sum(1 for e in tr if (e[0] == "HandOne" and e[1] is None) or (e[0] == "HandMany" and not e[2]))
            hist["invisible_batches"] += sum(1 for b in truth["batches"] if not b[2])
            hist["fetch_errors"] += sum(1 for e in tr if e[0] == "FetchResp" and e[2] != 0)
            hist["fetch_failures"] += sum(1 for e in tr if e[0] == "FetchFail")
            ck.count(key=(tuple(map(str, tr)), str(truth["batches"])),
                     nontrivial=any(e[0] == "ADeliver" for e in atr),
                     sample={"scenario": sc["id"], "partition": p, "iso": sc["iso"], "policy": sc["policy"],
                             "faults": sc["faults"], "log": truth["batches"][:12],
                             "trace": [coq_ev(e)[:120] for e in tr][:60]}
                     if stale and len(tr) > 25 else None)
    return cases, scan_cases, nbad


def new_hist():
    return {"faults": {}, "iso": {"0": 0, "1": 0}, "policy": {}, "failed_runs": 0, "scans": 0, "scans_with_filter": 0,
            "stale_responses_after_seek": 0, "deliveries": 0, "seeks": 0, "empty_handouts": 0,
            "invisible_batches": 0, "fetch_errors": 0, "fetch_failures": 0, "legacy_partitions": 0,
            "gzip_batches": 0, "late_appends": 0, "tasks": {}}


def directed_scenarios(base_id):
    """Hand-written schedules for the clauses that random generation reaches rarely."""
    out = []
    data = lambda n, **kw: dict({"k": "data", "n": n, "kept": list(range(n)), "pid": -1, "txn": False, "gzip": False}, **kw)  # noqa: E731
    # 1. seek while a fetch for the old position is in flight (slow broker), then consume
    out.append({"id": base_id, "seed": 1, "brokers": 1, "partitions": 1, "iso": 0, "policy": "earliest",
                "logs": {"0": [data(3), data(3), data(3), data(3)]}, "fetch_cut": [1], "latency": [0.05, 0.05],
                "tasks": [[{"op": "getone", "parts": []}, {"op": "seek", "p": 0, "to": 7}, {"op": "position", "p": 0},
                           {"op": "getone", "parts": []}, {"op": "seek", "p": 0, "to": 2},
                           {"op": "getmany", "parts": [], "timeout_ms": 500, "max_records": 2},
                           {"op": "position", "p": 0}]], "drain": 20.0})
    # 2. log consisting mostly of invisible batches: aborted transaction, markers, emptied batches
    out.append({"id": base_id + 1, "seed": 2, "brokers": 1, "partitions": 1, "iso": 1, "policy": "earliest",
                "logs": {"0": [data(2, pid=5, txn=True), data(2, kept=[]), {"k": "marker", "pid": 5, "commit": False},
                               data(3, kept=[0, 1]), data(2, kept=None), data(2, pid=7, txn=True),
                               {"k": "marker", "pid": 7, "commit": True}, data(1, kept=[])]},
                "fetch_cut": [1], "tasks": [[{"op": "getone", "parts": [], "timeout": 2.0}, {"op": "position", "p": 0}]],
                "drain": 20.0})
    # 3. pause while data is buffered and a getone() is waiting
    out.append({"id": base_id + 2, "seed": 3, "brokers": 2, "partitions": 2, "iso": 0, "policy": "earliest",
                "logs": {"0": [data(4), data(4)], "1": [data(2), data(2)]}, "fetch_cut": [1],
                "tasks": [[{"op": "getone", "parts": [0]}, {"op": "pause", "parts": [0]},
                           {"op": "getmany", "parts": [], "timeout_ms": 300}, {"op": "getone", "parts": [0], "timeout": 0.3},
                           {"op": "resume", "parts": [0]}, {"op": "getone", "parts": [0]}],
                          [{"op": "getone", "parts": [1], "timeout": 1.0}, {"op": "sleep", "t": 0.05},
                           {"op": "getmany", "parts": [1], "timeout_ms": 100, "max_records": 1}]], "drain": 20.0})
    # 4. mid-batch seek into gzip batches and legacy wrappers
    out.append({"id": base_id + 3, "seed": 4, "brokers": 1, "partitions": 2, "iso": 0, "policy": "latest",
                "logs": {"0": [data(5, gzip=True), data(5, gzip=True, kept=[0, 2, 4])],
                         "1": [{"k": "legacy", "magic": 1, "n": 4, "gzip": True}, {"k": "legacy", "magic": 0, "n": 3, "gzip": True},
                               {"k": "legacy", "magic": 1, "n": 2, "gzip": False}]},
                "tasks": [[{"op": "seek", "p": 0, "to": 3}, {"op": "seek", "p": 1, "to": 2},
                           {"op": "getmany", "parts": [], "timeout_ms": 500, "max_records": 3},
                           {"op": "seek", "p": 1, "to": 5}, {"op": "getone", "parts": [1]}, {"op": "position", "p": 1}]],
                "drain": 20.0})
    # 5. read_committed: a response ends inside an aborted transaction of producer 5 (one batch per response);
    #    the application then jumps (forward past the abort marker / back to the start) and must get the
    #    committed transactions of that same producer - nothing remembered from the abandoned response may filter
    k = base_id + 4
    for to in (5, 0, 9):
        for wait in (0.06, 0.07, 0.11, 0.12, 0.16):
            # slow broker (50 ms per fetch): the getone() gives up after `wait`, i.e. right after the 1st / 2nd / 3rd
            # response (each holding one batch of the aborted transaction) was consumed, and the seek lands before the
            # abort marker has been seen
            out.append({"id": k, "seed": k, "brokers": 1, "partitions": 1, "iso": 1, "policy": "earliest",
                        "logs": {"0": [data(2, pid=5, txn=True), data(2, pid=5, txn=True), {"k": "marker", "pid": 5, "commit": False},
                                       data(2, pid=5, txn=True), {"k": "marker", "pid": 5, "commit": True},
                                       data(2), data(2, pid=5, txn=True), {"k": "marker", "pid": 5, "commit": True}]},
                        "fetch_cut": [1], "latency": [0.05, 0.05],
                        "tasks": [[{"op": "getone", "parts": [], "timeout": wait}, {"op": "seek", "p": 0, "to": to},
                                   {"op": "getmany", "parts": [], "timeout_ms": 1500, "max_records": 10},
                                   {"op": "getmany", "parts": [], "timeout_ms": 1500, "max_records": 10},
                                   {"op": "position", "p": 0}]], "drain": 20.0})
            k += 1
    # 6. read_committed: several transactions overlap inside ONE fetch response, the producer that starts first
    #    does not have the smallest producer id, any subset aborts; a producer may abort twice
    mk = lambda pid, commit: {"k": "marker", "pid": pid, "commit": commit}  # noqa: E731
    for (a, b) in ((9, 3), (3, 9), (7, 5)):
        for (ca, cb) in ((False, False), (False, True), (True, False)):
            for cut in (None, [100], [3]):
                logs = [data(2, pid=a, txn=True), data(1), data(2, pid=b, txn=True), data(1, pid=a, txn=True),
                        mk(a, ca), data(2, pid=b, txn=True), data(1), mk(b, cb),
                        data(2, pid=a, txn=True), data(1, pid=b, txn=True), mk(b, False), mk(a, ca),
                        data(2, pid=b, txn=True), mk(b, True), data(1)]
                out.append({"id": k, "seed": k, "brokers": 1, "partitions": 1, "iso": 1, "policy": "earliest",
                            "logs": {"0": logs}, "fetch_cut": cut,
                            "tasks": [[{"op": "getmany", "parts": [], "timeout_ms": 1500, "max_records": 50},
                                       {"op": "getmany", "parts": [], "timeout_ms": 1500, "max_records": 50},
                                       {"op": "getmany", "parts": [], "timeout_ms": 500, "max_records": 50},
                                       {"op": "position", "p": 0}]], "drain": 20.0})
                k += 1
    # 7. the same overlapping transactions fetched with every older Fetch version that carries an aborted-
    #    transaction index (v4: no log start offset; v5-v10: log start offset before the index; v11 is the default)
    proto = [sc for sc in out if sc["id"] >= base_id + 19][:6:2]
    for ver in (4, 5, 7, 10):
        for sc0 in proto:
            sc = json.loads(json.dumps(sc0))
            sc["id"] = k
            sc["api_ranges"] = {"1": [0, ver]}
            out.append(sc)
            k += 1
    # 8. one task per partition, each blocked in getone(tp_i); the records arrive one partition after the other while
    #    all tasks are blocked: each task must be woken for its own partition's data
    for nparts in (2, 3, 4):
        for gap in (0.15, 0.5):
            logs = {str(q): [dict(data(1), at=round(0.3 + gap * ((q * 2) % nparts), 3)),
                             dict(data(1), at=round(0.3 + gap * nparts + gap * q, 3))] for q in range(nparts)}
            out.append({"id": k, "seed": k, "brokers": 1 + (nparts % 2), "partitions": nparts, "iso": 0,
                        "policy": "earliest", "logs": logs, "fetch_max_wait_ms": 100, "expect_no_timeout": True,
                        "tasks": [[{"op": "getone", "parts": [q], "timeout": 6.0},
                                   {"op": "getone", "parts": [q], "timeout": 6.0}] for q in range(nparts)],
                        "drain": 10.0})
            k += 1
    for sc in out:
        sc.setdefault("faults", {})
    return out


def check_fetch_dispatch(ck):
    """the translated fetchDispatch (evaluated inside Coq) against the real Fetcher._proc_fetch_request for every
    error code -1..100 with and without a reset policy, plus the property's clause on the real method: no error
    reply but OFFSET_OUT_OF_RANGE may move the position"""
    from common import run_impl
    codes = list(range(-1, 101))
    combos = [True, False]
    cases = [{"code": c, "has_policy": p} for p in combos for c in codes]
    impl = run_impl("c03_dispatch_impl.py", {"cases": cases}, timeout=300)["out"]
    zl = "; ".join(f"({c})" if c < 0 else str(c) for c in codes)
    body = "\n".join(f"Eval vm_compute in (map (fun c => fetchDispatch c {str(p).lower()}) [{zl}])." for p in combos) + "\n"
    okc, out = ck.coq_eval("c03_dispatch", ["DispatchActs", "FetchDispatch"], body)
    vals = [parse_coq_value(v) for v in parse_eval_outputs(out)] if okc else []
    if len(vals) != len(combos):
        ck.obligation("correspondence:fetch-dispatch-evaluated-in-coq", False, out[-400:])
        return

    def flat(x):
        if isinstance(x, (list, tuple)) and len(x) == 2 and x[0] == "ctor":
            return flat(x[1])
        return x if isinstance(x, str) else str(x)
    mism = 0
    k = 0
    for p, col in zip(combos, vals):
        for c, m in zip(codes, col):
            r = impl[k]
            k += 1
            model = [flat(a) for a in m]
            if model != r["acts"] or r["exc"]:
                mism += 1
                if mism <= 3:
                    ck.obligation(f"correspondence:fetch-dispatch:{c}:{p}", False, f"model {model} vs real {r}")
            if c not in (0, 1) and not r["position_kept"]:
                ck.violation(f"a Fetch reply with error code {c} made the consumer give up its position "
                             f"(only OFFSET_OUT_OF_RANGE may): handler did {r['acts']}",
                             {"code": c, "has_policy": p, "observed": r}, signature=f"fetch-dispatch-moves-position:{c}")
    ck.obligation("correspondence:fetch-dispatch-model-vs-real-handler", mism == 0, f"{mism} differ of {len(cases)}")
    ck.trusted.append("translator/dispatch2gallina.py for the per-partition error chain of Fetcher._proc_fetch_request "
                      "(validated per run against the real method on a stub, codes -1..100 x reset policy)")


def run(ck: Check):
    ck.trusted += [
        "Coq 8.16.1 kernel; vm_compute for Examples and for replaying recorded traces",
        "model/C03_Fetcher.v is hand-written; tied to the code by trace acceptance on every run "
        "(fetcher model and API-level spec automaton), not by translation",
        "which records of a batch are visible at an isolation level is taken from the simulated log "
        "(aborted-transaction ranges, control flag) — exactness of the client-side filter is C08's theorem",
        "the simulated cluster (harness/simkit) and the independent record reader (simkit/refcodec.py) are the "
        "oracle for the log contents; harness/c03_loggen.py writes the logs",
        "observation points installed by harness/impl/c03_sim.py around Fetcher._get_actions_per_node, "
        "AIOKafkaClient.send (Fetch only), FetchResult.getone/getall, FetchError.check_raise, Fetcher.seek_to / "
        "request_offset_reset / _set_error, TopicPartitionState.reset_to / await_reset, SubscriptionState.pause / "
        "resume, OrderedDict.keys of Fetcher._records (no source hooks); asyncio ready-queue order is one fixed "
        "order per schedule",
    ]
    ck.cov["rule"] = ("scenarios: manual assignment of 1-3 partitions on 1-3 brokers; generated logs (v2 batches, gzip, "
                      "compaction holes incl. removed last records and removed batches, control batches, aborted / "
                      "committed / open transactions, legacy v0/v1 sets and gzip wrappers, records appended while "
                      "consuming); fetch cuts by batch count or max_partition_fetch_bytes; 1-3 tasks interleaving "
                      "getone/getmany(max_records)/seek/seek_to_*/pause/resume/position with partition filters; 0-5 "
                      "faults on Fetch/ListOffsets/Metadata ordinals (drops, lost replies, retriable errors, "
                      "OFFSET_OUT_OF_RANGE, delays), leader migrations, leaderless periods, retention; then a quiet "
                      "period.  One evaluation = one (scenario, partition) trace; non-trivial = at least one record "
                      "delivered; distinct by (projected trace, log)")
    import time as _t
    t0 = _t.time()
    ck.regenerate(["FetchDispatch", "TpStateGen"])
    ok_p, _ = ck.coq_props("C03")
    ck.log(f"proofs ok={ok_p} ({_t.time() - t0:.0f}s)")
    check_fetch_dispatch(ck)
    check_tpstate(ck)

    rng = random.Random(ck.seed * 7919 + 3)
    n = ck.n(200, 4000)
    scs = []
    for fn in sorted(glob.glob(os.path.join(VERIF, "corpus", "C03", "*.json"))):
        sc = json.load(open(fn))
        sc["id"] = f"corpus-{os.path.basename(fn)[:-5]}"
        scs.append(sc)
    scs += directed_scenarios(100000)
    for i in range(n):
        scs.append(gen_scenario(rng, i))
    # a leader change while a Fetch is in flight: the consumer fetches the same offset from the new leader as well
    # (in-flight requests are tracked per node); the old leader's reply brings records, the new leader's later reply
    # an error (OFFSET_OUT_OF_RANGE after an unclean election, or a retriable code)
    rng_dup = random.Random(ck.seed * 7121 + 304)
    for i in range(ck.n(36, 300)):
        k = rng_dup.randrange(2, 9)
        faults = {str(o): {"kind": "delay", "delay": rng_dup.choice([0.3, 0.5])} for o in range(k, k + rng_dup.choice([1, 2, 3]))}
        for o in range(k + 3, k + 3 + rng_dup.choice([2, 4, 6])):
            faults[str(o)] = {"kind": "error", "code": rng_dup.choice([1, 1, 1, 6, 3]), "delay": rng_dup.choice([0.6, 0.9])}
        sc = gen_scenario(rng_dup, 710000 + i, brokers=2, metadata_max_age_ms=100, latency=[0.001, 0.004],
                          fetch_max_wait_ms=50)
        sc["faults"] = faults
        sc["migrations"] = [{"at": rng_dup.choice([0.02, 0.05, 0.1, 0.2, 0.3, 0.45]), "partition": q, "to": 1 - q % 2}
                            for q in range(sc["partitions"])]
        sc["leaderless"] = []
        sc["log_start_moves"] = []
        sc["family"] = "duplicate-fetch-after-leader-change"
        scs.append(sc)
    # the same kind of scenarios against older broker releases (Fetch v2..v11, ListOffsets v0..v5, Metadata v1..v8):
    # read_committed needs Fetch >= 4, i.e. a release with transactions
    from simkit import profiles
    rng_old = random.Random(ck.seed * 7121 + 303)
    for i in range(ck.n(40, 600)):
        sc = gen_scenario(rng_old, 700000 + i)
        names = profiles.TRANSACTIONAL if sc["iso"] == 1 else list(profiles.BROKER_PROFILES)
        name = rng_old.choice(names)
        sc["api_ranges"] = profiles.api_ranges(name)
        sc["family"] = "old-broker:" + name
        scs.append(sc)
    t0 = _t.time()
    results = run_scenarios(scs, timeout=ck.n(600, 2400))
    ck.log(f"simulations took {_t.time() - t0:.0f}s")
    hist = new_hist()
    cases, scan_cases, nbad = collect(ck, scs, results, hist)
    ck.extra["input_distribution"] = hist
    ck.log(f"simulated {len(scs)} scenarios, {len(cases)} partition traces, {len(scan_cases)} scans, "
           f"monitor violations: {nbad}; {hist}")
    t0 = _t.time()
    accepted, rejected, mismatched, coq_fail, scan_bad = check_models(ck, cases, scan_cases)
    ck.log(f"replay inside Coq took {_t.time() - t0:.0f}s")
    ck.obligation("correspondence:all-traces-accepted-by-model-and-spec", rejected == 0 and coq_fail == 0,
                  f"{rejected} rejected, {coq_fail} case files failed to evaluate")
    ck.obligation("correspondence:model-and-spec-outputs-equal-observed", mismatched == 0, f"{mismatched} differ")
    ck.obligation("correspondence:scans-visit-what-the-scan-model-says", scan_bad == 0 and coq_fail == 0,
                  f"{scan_bad} of {len(scan_cases)} scans differ")
    ck.obligation("correspondence:every-simulation-ran", hist["failed_runs"] == 0, f"{hist['failed_runs']} failed")
    ck.cov["traces_validated_against_impl"] = accepted
    ck.log(f"model acceptance: {len(cases)} traces, accepted={accepted}, rejected={rejected}, mismatched={mismatched}, "
           f"coq_fail={coq_fail}, scans differing={scan_bad}")


def replay(ck: Check, path):
    doc = json.load(open(path))
    rp = doc.get("replay", doc)
    sc = rp.get("scenario")
    if sc is None:
        ck.log("replay file names no scenario (broken obligation): re-running the check")
        run(ck)
        return ck.finish()
    results = run_scenarios([sc], shards=1)
    hist = new_hist()
    cases, scan_cases, nbad = collect(ck, [sc], results, hist)
    accepted, rejected, mismatched, coq_fail, scan_bad = check_models(ck, cases, scan_cases, prefix="c03_replay")
    ck.obligation("correspondence:replayed-trace-accepted", rejected == 0 and mismatched == 0 and coq_fail == 0 and scan_bad == 0,
                  f"rejected={rejected} mismatched={mismatched} scans={scan_bad}")
    ck.log(f"replay: monitor violations={nbad}, rejected={rejected}, mismatched={mismatched}")
    return ck.finish()
