"""C02 — every send future resolves once, with the record's true coordinates."""
import glob
import json
import os
import random

import prodsim
from common import VERIF, Check, coq_bool, coq_list, coq_Z, parse_coq_value, parse_eval_outputs, run_impl


def check_done(ck: Check):
    rng = ck.rng
    cases = []
    for _ in range(ck.n(150, 1200)):
        n = rng.choice([1, 1, 2, 3, 5, 8])
        futs = [(rng.random() < 0.25, rng.choice([0, 1, 1000 + rng.randrange(10**6), 2**40])) for _ in range(n)]
        kind = rng.choice(["done", "done", "done", "noack", "fail"])
        cases.append({"futs": futs, "kind": kind, "base": rng.choice([0, 1, 17, 2**40, -1]),
                      "bts": rng.choice([-1, -1, 0, 123456789]), "ls": rng.choice([-2, 0, 5])})
    # the 3-record CreateTime batch that exposed the fixed timestamp defect runs first
    cases.insert(0, {"futs": [(False, 1000), (False, 2000), (False, 3000)], "kind": "done", "base": 100,
                     "bts": -1, "ls": 0})
    payload = {"cases": [dict(c, futs=[[d, t] for d, t in c["futs"]], ls=(None if c["ls"] == -2 else c["ls"]))
                         for c in cases]}
    impl = run_impl("c02_done_impl.py", payload)["out"]

    def coq_case(c):
        fs = coq_list(list(enumerate(c["futs"])), lambda x: f"mkF {coq_bool(x[1][0])} {x[0]} {coq_Z(x[1][1])}")
        if c["kind"] == "done":
            return f"done {coq_Z(c['base'])} {coq_Z(c['bts'])} {coq_Z(c['ls'])} {fs}"
        return ("done_noack " if c["kind"] == "noack" else "failure ") + fs
    body = "\n".join(f"Eval vm_compute in ({coq_case(c)})." for c in cases) + "\n"
    ok, out = ck.coq_eval("c02_done", ["C02_Done"], body)
    nbad = 0
    detail = ""
    if ok:
        vals = [parse_coq_value(v) for v in parse_eval_outputs(out)]
        if len(vals) != len(cases):
            ok = False
            detail = "output count mismatch"
        for c, v, im in zip(cases, vals if ok else [], impl):
            model = []
            for (i, r) in v:
                if r == "RNone":
                    model.append([i, "NONE"])
                elif r == "RErr":
                    model.append([i, "ERR"])
                else:
                    model.append([i, [r[1], r[2], r[3], r[4]]])
            real = [[i, (x[:4] if isinstance(x, list) else x)] for i, x in im.get("res", [])]
            ck.count(key=("done", json.dumps(c)), nontrivial=len(c["futs"]) > 1,
                     sample={"case": c, "impl": real} if len(c["futs"]) == 3 and c["kind"] == "done" else None)
            # monitor: the property itself on the real result
            if c["kind"] == "done":
                for i, x in im.get("res", []):
                    if isinstance(x, list):
                        want_ts = c["futs"][i][1] if c["bts"] == -1 else c["bts"]
                        # an unknown base offset (-1: duplicate whose metadata the broker no longer retains) names no offset
                        want_off = c["base"] + i if c["base"] >= 0 else -1
                        if x[0] != want_off or x[1] != want_ts or x[2] != (0 if c["bts"] == -1 else 1) or x[4] != 3:
                            nbad += 1
                            if nbad <= 3:
                                ck.violation(f"done(): record {i} resolved with {x[:3]}, expected offset "
                                             f"{want_off}, timestamp {want_ts}",
                                             {"kind": "done", "case": c, "impl": real},
                                             signature=f"done:{json.dumps(c)[:80]}")
            if model != real:
                ok = False
                if not detail:
                    detail = f"model {model} vs real {real} on {c}"
    else:
        detail = out[-300:]
    ck.obligation("correspondence:done-model-vs-real-MessageBatch", ok, detail)


def gen(rng, sid):
    sc = prodsim.gen_scenario(rng, sid)
    mode = rng.random()
    if mode < 0.15:
        sc["idempotent"] = False
        sc["acks"] = 0
    if rng.random() < 0.35 and not sc["idempotent"]:
        v = rng.choice([0, 1, 2, 3, 4, 5, 6, 7])
        sc["api_ranges"] = {"0": [0, v]}
        if v < 3:
            sc["compression"] = rng.choice([None, "gzip"])
    if rng.random() < 0.3:
        total = sum(len(t) for t in sc["tasks"])
        sc["flush_at"] = rng.randrange(1, total + 1)
    if rng.random() < 0.6:
        sc["flush_after"] = [rng.choice([0.0005, 0.002, 0.011, 0.012, 0.05, 0.101, 0.3, 0.502, 1.0])
                             for _ in range(rng.choice([1, 2, 3]))]
    if rng.random() < 0.4:
        sc["stop_early"] = True
    return sc


def gen_nonretriable(rng, sid):
    """one Produce reply carries a non-retriable error (MESSAGE_TOO_LARGE, CORRUPT_MESSAGE, INVALID_REQUIRED_ACKS)
    while other batches are in flight or in retry backoff and flush()/stop() are in progress: that batch's futures
    fail with the error, every other accepted record still resolves, flush()/stop() wait for all and do not raise"""
    sc = gen(rng, sid)
    sc["partitions"] = max(2, sc["partitions"])
    for t in sc["tasks"]:
        for it in t:
            if "p" in it:
                it["p"] = rng.randrange(sc["partitions"])
    faults = dict(sc.get("faults") or {})
    faults[str(rng.randrange(1, 6))] = {"kind": "error", "code": rng.choice([10, 2, 21])}
    faults[str(rng.randrange(1, 8))] = {"kind": "error", "code": rng.choice(prodsim.RETRIABLE_CODES)}
    sc["faults"] = faults
    if not sc.get("flush_after"):
        sc["flush_after"] = [rng.choice([0.002, 0.011, 0.05, 0.101])]
    return sc


def gen_cancelled_futures(rng, sid):
    """the application abandons futures it was handed (cancel() / wait_for timeout) while their batches are queued,
    in flight or in retry backoff - for send() and for send_batch(): delivery goes on, flush()/stop() still wait for
    everything, and no other record is affected"""
    sc = gen(rng, sid)
    for t in sc["tasks"]:
        for it in t:
            if rng.random() < 0.4:
                it["cancel_after"] = rng.choice([0, 1, 2, 5, 20, 60, 300, 1200])
    if not sc.get("faults"):
        sc["faults"] = {str(rng.randrange(1, 6)): {"kind": "error", "code": rng.choice(prodsim.RETRIABLE_CODES)}}
    return sc


def gen_rejected_records(rng, sid):
    """some send() calls are rejected by the record builder (str value / key without a serializer, malformed
    headers -> TypeError; the application catches it and carries on): nothing was accepted for them, and every
    other record - on any partition - is delivered and resolved as usual"""
    sc = gen(rng, sid)
    sc["idempotent"] = True if rng.random() < 0.7 else sc["idempotent"]
    sc.pop("stop_early", None)
    nbad = 0
    for t in sc["tasks"]:
        for it in t:
            if "rid" in it and rng.random() < 0.3:
                it["bad"] = rng.choice(["str_value", "str_value", "str_key", "headers"])
                nbad += 1
    if not nbad:
        for t in sc["tasks"]:
            for it in t:
                if "rid" in it:
                    it["bad"] = "str_value"
                    return sc
    return sc


def gen_parked_stop(rng, sid):
    """stop() while send() calls are parked on a full batch that cannot be drained (its partition has a batch in
    flight): whatever send() returned a future for must still be resolved; a parked send() may only raise"""
    sc = prodsim.gen_scenario(rng, sid, n_faults=0)
    sc["partitions"] = 1
    sc["max_batch_size"] = 120
    sc["linger_ms"] = 0
    sc["compression"] = None
    rid = 0
    tasks = []
    for _t in range(rng.choice([1, 2, 3])):
        items = []
        for _ in range(rng.randrange(3, 7)):
            items.append({"rid": rid, "p": 0, "sleep": rng.choice([0, 0, 0, 0.001]), "ts": None, "size": 150, "hdr": False})
            rid += 1
        tasks.append(items)
    sc["tasks"] = tasks
    sc["migrations"] = []
    sc["leaderless"] = []
    sc["stop_after"] = rng.choice([0.0005, 0.001, 0.002, 0.003, 0.005, 0.01, 0.03])
    sc["stop_early"] = True
    faults = {}
    for _ in range(rng.choice([1, 2, 3])):
        kind = rng.choice(["error", "error", "delay", "drop_after"])
        f = {"kind": kind}
        if kind == "error":
            f["code"] = rng.choice(prodsim.RETRIABLE_CODES)
        if kind == "delay":
            f["delay"] = rng.choice([0.05, 0.3])
        faults[str(rng.randrange(1, 8))] = f
    sc["faults"] = faults
    return sc


def gen_parked_send_batch_stop(rng, sid):
    """stop() while a send_batch() call is parked behind a queued (lingering or muted) batch of its partition: the call
    either raises or returns a future that is resolved - never a future nobody will ever resolve"""
    sc = prodsim.gen_scenario(rng, sid, n_faults=0)
    sc["partitions"] = 1
    sc["linger_ms"] = rng.choice([20, 50, 200])
    sc["compression"] = None
    sc["tasks"] = [[{"rid": 0, "p": 0, "sleep": 0, "ts": None, "size": 0, "hdr": False}],
                   [{"send_batch": [1, 2], "p": 0, "sleep": rng.choice([0.0005, 0.001, 0.003])}],
                   [{"send_batch": [3], "p": 0, "sleep": rng.choice([0.001, 0.004])}]][:rng.choice([2, 3])]
    sc["migrations"] = []
    sc["leaderless"] = []
    sc["faults"] = {}
    sc["stop_after"] = rng.choice([0.002, 0.005, 0.01, 0.015])
    sc["stop_early"] = True
    return sc


PRODUCE_RETRIABLE = [3, 5, 6, 7, 19, 20, 56]      # = kafka_produce_retriable of proof/C02_dispatch.v


def check_produce_dispatch(ck):
    """the translated produceDispatch (evaluated inside Coq) against the real SendProduceReqHandler.handle_response
    for every code -1..100 x idempotent x expired, plus the property's clause stated on the real handler"""
    from common import parse_coq_value, parse_eval_outputs, run_impl
    codes = list(range(-1, 101))
    combos = [(i, e) for i in (True, False) for e in (True, False)]
    cases = [{"code": c, "idem": i, "expired": e} for (i, e) in combos for c in codes]
    impl = run_impl("c01_dispatch_impl.py", {"cases": cases}, timeout=300)["out"]
    zl = "; ".join(f"({c})" if c < 0 else str(c) for c in codes)
    body = "\n".join(f"Eval vm_compute in (map (fun c => produceDispatch c {str(i).lower()} {str(e).lower()}) [{zl}])."
                     for (i, e) in combos) + "\n"
    okc, out = ck.coq_eval("c02_dispatch", ["DispatchActs", "ProduceDispatch"], body)
    vals = [parse_coq_value(v) for v in parse_eval_outputs(out)] if okc else []
    if len(vals) != len(combos):
        ck.obligation("correspondence:produce-dispatch-evaluated-in-coq", False, out[-400:])
        return

    def flat(x):
        if isinstance(x, str):
            return x
        if isinstance(x, (list, tuple)):
            if len(x) == 2 and x[0] == "ctor":
                return flat(x[1])
            return " ".join(flat(y) for y in x)
        return str(x)
    mism = 0
    k = 0
    for (i, e), col in zip(combos, vals):
        for c, m in zip(codes, col):
            r = impl[k]
            k += 1
            model = ["ADone" if a == "ASuccess" else a for a in (flat(a) for a in m)]
            ck.count(key=("produce-dispatch", c, i, e), nontrivial=c in PRODUCE_RETRIABLE)
            if model != r["acts"] or r["exc"]:
                mism += 1
                if mism <= 3:
                    ck.obligation(f"correspondence:produce-dispatch:{c}:{i}:{e}", False, f"model {model} vs real {r}")
            if c in PRODUCE_RETRIABLE and i and ("AFail" in r["acts"] or "AReenqueue" not in r["acts"]):
                ck.violation(f"idempotent producer: a Produce reply with the retriable error code {c} "
                             f"({'expired' if e else 'fresh'} batch) fails the batch instead of retrying it "
                             f"(handler did {r['acts']})", {"code": c, "idempotent": i, "expired": e, "observed": r},
                             signature=f"produce-dispatch-fails-retriable:{c}")
    ck.obligation("correspondence:produce-dispatch-model-vs-real-handler", mism == 0, f"{mism} differ of {len(cases)}")


def monitor(ck, sc, r):
    bad = 0

    def viol(what, extra=None):
        nonlocal bad
        bad += 1
        rp = {"scenario": sc, "what": what}
        rp.update(extra or {})
        ck.violation(f"{what} (scenario {sc['id']})", rp, signature=f"sim:{what[:70]}")
    pv = (sc.get("api_ranges") or {}).get("0", [0, 99])[1]
    retriable_only = all(f["kind"] != "error" or f.get("code") in prodsim.RETRIABLE_CODES
                         for f in (sc.get("faults") or {}).values())
    for s in r["sends"]:
        if "send_exc" in s:
            continue
        st = s.get("state")
        if s.get("user_cancelled"):
            # the application cancelled the future it was handed (documented: that does not stop the record from
            # being sent): the record is still delivered, once, and nobody else's record suffers (checked below
            # on the other sends)
            if retriable_only and sc["idempotent"] and s.get("batch_index") != -1:
                n_log = sum(1 for x in r["logs"][str(s["p"])]["records"] if x["rid"] == s["rid"])
                if n_log == 0 or (sc["idempotent"] and n_log > 1):
                    viol(f"a record whose returned future the application cancelled is in the log {n_log} times",
                         {"send": s})
            continue
        if st in ("pending", "cancelled"):
            viol("a send future is still unresolved after the quiet period", {"send": s})
            continue
        if st == "error":
            if sc["idempotent"] and retriable_only:
                viol("idempotent producer: an accepted record failed although only retriable faults occurred",
                     {"send": s})
            continue
        md = s.get("md")
        if sc.get("acks") == 0 and not sc["idempotent"]:
            if md is not None:
                viol("acks=0: future resolved with metadata", {"send": s})
            continue
        if md is None:
            viol("future resolved without metadata although acks != 0", {"send": s})
            continue
        lg = r["logs"][str(s["p"])]
        if s.get("batch_index") == -1:
            # appended later to the user-held builder: its index inside the batch depends on
            # interleaved send() calls; it must sit in the log, in the batch the future names
            at = [x for x in lg["records"] if x["rid"] == s["rid"] and x["offset"] >= md["offset"]]
            if len(at) != 1:
                viol("a record appended to an open batch is not in the log exactly once", {"send": s})
            continue
        at = [x for x in lg["records"] if x["offset"] == md["offset"] + s.get("batch_index", 0)]
        if md["partition"] != s["p"] or md["topic"] != "t":
            viol("metadata names the wrong partition", {"send": s})
        if not at or at[0]["rid"] != s["rid"]:
            viol("metadata offset does not hold this record", {"send": s, "at_offset": at[:1]})
            continue
        rec = at[0]
        if pv >= 2:
            if rec["ts"] is not None and md["timestamp"] != rec["ts"] and "batch_index" not in s:
                viol("metadata timestamp differs from the record's timestamp in the log",
                     {"send": s, "log_record": rec})
            if md["timestamp_type"] != lg["ts_type"]:
                viol("metadata timestamp type differs from the one the broker applied", {"send": s})
        if rec["key"] != f"k{s['rid']}" or (s.get("ts") is not None and lg["ts_type"] == 0 and rec["ts"] not in (None, s["ts"])):
            viol("the record in the log at that offset differs from the one sent", {"send": s, "log_record": rec})
    if r.get("flush") and r["flush"].get("unresolved_before") is None:
        pass
    for fl in ([r["flush"]] if r.get("flush") else []) + (r.get("flushes") or []):
        if fl.get("unresolved_after", 0):
            viol("flush() returned while previously accepted records were unresolved"
                 + (f" (it raised {fl['exc']}, the error of one batch)" if fl.get("exc") else ""), {"flush": fl})
        elif fl.get("exc"):
            viol(f"flush() raised {fl['exc']}: the error of a record belongs to that record's future", {"flush": fl})
    stp = r.get("stop") or {}
    if stp.get("timeout"):
        viol("stop() did not return")
    elif stp.get("unresolved_after"):
        viol("stop() returned while accepted records were unresolved"
             + (f" (it raised {stp['exc']})" if stp.get("exc") else ""), {"stop": stp})
    elif stp.get("exc"):
        viol(f"stop() raised {stp['exc']}: the error of a record belongs to that record's future", {"stop": stp})
    if r.get("resolve_time", 0) > sc.get("resolve_bound", 60.0):
        viol("futures not resolved within the bound after faults ceased", {"resolve_time": r["resolve_time"]})
    return bad


def run(ck: Check):
    ck.trusted += [
        "translator/dispatch2gallina.py for SendProduceReqHandler.handle_response/_can_retry and the retriable / "
        "invalid_metadata attributes of errors.py (validated per run against the real handler, codes -1..100 x "
        "idempotent x expired); kafka_produce_retriable is written by hand",
        "Coq 8.16.1 kernel; vm_compute for case evaluation and Examples",
        "model/C02_Done.v is hand-written; tied to MessageBatch.done/done_noack/failure by differential "
        "testing on every run",
        "model/Producer.v tied by trace acceptance of the real producer under the simulator",
        "simulated cluster (harness/simkit) and independent reference record reader (simkit/refcodec.py) as oracle "
        "of what sits in the partition log",
        "'bounded time after faults cease' is virtual time in the simulator and rounds in the model",
    ]
    ck.cov["rule"] = ("(a) done(): random batches of 1-8 futures, some pre-resolved, CreateTime/LogAppendTime replies, "
                      "all three resolution paths; (b) simulated producer runs: acks 0/1/all, idempotent or not, "
                      "produce v0..v7 brokers, CreateTime/LogAppendTime topics, explicit/default timestamps, faults "
                      "as in C01, flush() at a random accept; one evaluation = one done() case or one send future; "
                      "non-trivial = batch of >1 record or a run with at least one fault")
    ck.regenerate(["IncrSeq", "ProduceDispatch", "DoneGen"])
    ok_p, _ = ck.coq_props("C02")
    check_done(ck)
    check_produce_dispatch(ck)
    rng = random.Random(ck.seed * 104729 + 2)
    scs = []
    for fn in sorted(glob.glob(os.path.join(VERIF, "corpus", "C02", "*.json"))):
        scs.append(json.load(open(fn)))
    n = ck.n(110, 1500)
    for i in range(n):
        scs.append(gen(rng, i))
    for i in range(ck.n(40, 400)):
        scs.append(gen_parked_stop(rng, 100000 + i))
    for i in range(ck.n(40, 400)):
        scs.append(gen_nonretriable(rng, 200000 + i))
    for i in range(ck.n(40, 400)):
        scs.append(gen_cancelled_futures(rng, 300000 + i))
    for i in range(ck.n(40, 400)):
        scs.append(gen_rejected_records(rng, 400000 + i))
    for i in range(ck.n(16, 150)):
        scs.append(gen_parked_send_batch_stop(rng, 500000 + i))
    rng_old = random.Random(ck.seed * 7121 + 202)
    for i in range(ck.n(30, 300)):
        sc = gen(rng_old, 700000 + i)
        if "api_ranges" not in sc:
            prodsim.old_broker(sc, rng_old)
        scs.append(sc)
    results = prodsim.run_scenarios(scs, timeout=ck.n(600, 2400))
    nbad = 0
    hist = {"acks0": 0, "idempotent": 0, "produce_version_cap": {}, "log_append_time": 0, "flush": 0, "failed_runs": 0}
    traces = []
    for sc, r in zip(scs, results):
        if not r.get("ok"):
            hist["failed_runs"] += 1
            ck.obligation(f"correspondence:simulation-ran:{sc['id']}", False, r.get("error", "")[:300])
            continue
        hist["idempotent"] += bool(sc["idempotent"])
        hist["acks0"] += (sc.get("acks") == 0 and not sc["idempotent"])
        hist["log_append_time"] += sc.get("ts_type", 0)
        hist["flush"] += sc.get("flush_at") is not None
        hist["flush_with_pending"] = hist.get("flush_with_pending", 0) + sum(
            1 for f in (r.get("flushes") or []) if f.get("pending_at_call"))
        hist["stop_with_pending"] = hist.get("stop_with_pending", 0) + bool((r.get("stop") or {}).get("unresolved_before"))
        if sc.get("stop_after") is not None:
            hist["concurrent_stop"] = hist.get("concurrent_stop", 0) + 1
            hist["concurrent_stop_sends_refused"] = hist.get("concurrent_stop_sends_refused", 0) + sum(
                1 for x in r["sends"] if x.get("send_exc") == "ProducerClosed")
        cap = (sc.get("api_ranges") or {}).get("0", [0, "max"])[1]
        hist["produce_version_cap"][str(cap)] = hist["produce_version_cap"].get(str(cap), 0) + 1
        # flush bookkeeping: recompute "unresolved at flush return" from the run
        nbad += monitor(ck, sc, r)
        for s in r["sends"]:
            ck.count(key=(sc["id"], s["rid"]), nontrivial=bool(sc.get("faults")) or True,
                     sample={"scenario": sc["id"], "send": s} if s.get("md") and len(ck.cov["samples"]) < 5 else None)
        nonretriable = any(f["kind"] == "error" and f.get("code") not in prodsim.RETRIABLE_CODES
                           for f in (sc.get("faults") or {}).values())
        if sc["idempotent"] and not nonretriable:      # Producer.v models retriable faults only
            for part in range(sc["partitions"]):
                tr, verdicts = prodsim.project(r, part)
                tr = tr + [("FlushRet",)]     # stop() returned: nothing may be queued or in flight
                traces.append((sc, part, tr))
    ck.extra["input_distribution"] = hist
    ck.log(f"simulated {len(scs)} scenarios; monitor violations {nbad}; {hist}")
    # model acceptance incl. FlushRet at the end (stop() returned)
    per = 150
    bodies = []
    for i in range(0, len(traces), per):
        bodies.append("\n".join(f"Eval vm_compute in (match replay init0 {prodsim.coq_trace(t[2])} with inl _ => 0%nat | inr i => S i end)."
                                for t in traces[i:i + per]) + "\n")
    res = ck.coq_eval_sharded("c02_traces", ["Imp", "IncrSeq", "Producer"], bodies)
    rejected = 0
    fail = 0
    for ci, (okc, out) in enumerate(res):
        chunk = traces[ci * per:(ci + 1) * per]
        vals = [parse_coq_value(v) for v in parse_eval_outputs(out)] if okc else []
        if len(vals) != len(chunk):
            fail += 1
            continue
        for t, v in zip(chunk, vals):
            if v != 0:
                rejected += 1
                if rejected <= 4:
                    ck.obligation(f"correspondence:trace-accepted:scenario{t[0]['id']}-p{t[1]}", False,
                                  f"model rejects event #{v - 1} {t[2][v - 1] if v - 1 < len(t[2]) else None}")
                    ev = t[2][v - 1] if v - 1 < len(t[2]) else None
                    ck.violation(f"the real producer did something the batch life-cycle model (whose guards are the "
                                 f"property's clauses) does not allow: partition {t[1]} of scenario {t[0]['id']}, event "
                                 f"#{v - 1} {ev} after {t[2][max(0, v - 7):v - 1]}",
                                 {"scenario": t[0], "partition": t[1], "rejected_event_index": v - 1,
                                  "context": t[2][max(0, v - 9):v]},
                                 signature=f"trace-rejected:{ev[0] if ev else ''}")
    ck.obligation("correspondence:all-traces-with-final-FlushRet-accepted", rejected == 0 and fail == 0,
                  f"{rejected} rejected, {fail} files failed")
    ck.cov["traces_validated_against_impl"] = len(traces) - rejected
